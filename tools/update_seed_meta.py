#!/usr/bin/env python3
"""update_seed_meta.py : fill seeded/<id>/meta.json 'detected_by' from logs/seeds/SUMMARY2.txt
(the last recorded run of each (seed, property) pair wins)."""
import json, os, re, glob
V = os.path.dirname(os.path.dirname(os.path.abspath(__file__)))
last = {}
for line in open(os.path.join(V, "logs/seeds/SUMMARY2.txt")):
    m = re.match(r"(\S+) vs (\S+): exit=(\d+) violations=(\d+) ?(.*)", line.strip())
    if not m:
        continue
    sid, prop, rc, nv, rest = m.groups()
    hs = re.findall(r"harness (\S+) FAILED", rest)
    rp = re.findall(r"replay=\S+/([^/|]+?)\.(?:replay\.rs|json)", rest)
    last[(sid, prop)] = (int(rc), int(nv), sorted(set(hs) | set(rp)))
by_seed = {}
for (sid, prop), (rc, nv, hs) in last.items():
    by_seed.setdefault(sid, {})[prop] = (rc, nv, hs)
for mp in sorted(glob.glob(os.path.join(V, "seeded/*/meta.json"))):
    meta = json.load(open(mp))
    sid = meta["id"]
    runs = by_seed.get(sid, {})
    det, missed = [], []
    for prop, (rc, nv, hs) in sorted(runs.items()):
        if rc == 1 and nv > 0:
            det += ["%s %s" % (prop, h) for h in hs] or ["%s (violation)" % prop]
        else:
            missed.append("%s (exit %d)" % (prop, rc))
    if runs:
        meta["detected_by"] = det
        meta["not_detected_by"] = missed
        meta["checks_run"] = "tools/seedtest2.sh %s <PROP> against a scratch worktree with the patch applied; last run per property recorded" % sid
        json.dump(meta, open(mp, "w"), indent=1)
    print(sid, "DETECTED" if det else "missed", len(det), missed)
