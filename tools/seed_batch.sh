#!/bin/bash
# usage: seed_batch.sh "<seedid>:<PROP>[:only-regex]" ...   (serial; applies each patch to /repo and reverts)
mkdir -p /verif/logs/seeds
for item in "$@"; do
  IFS=: read sid prop only <<<"$item"
  args=""; [ -n "$only" ] && args="--only $only"
  /verif/tools/seedtest.sh /verif/seeded/$sid/patch.diff $prop $args > /verif/logs/seeds/$sid-$prop.log 2>&1
  rc=$(grep "check exit code" /verif/logs/seeds/$sid-$prop.log | awk '{print $4}')
  echo "$sid vs $prop: exit=$rc $(grep -c '^VIOLATION' /verif/logs/seeds/$sid-$prop.log) violations; $(grep '^VIOLATION' /verif/logs/seeds/$sid-$prop.log | head -3 | tr '\n' ' ')" | tee -a /verif/logs/seeds/SUMMARY.txt
done
