#!/bin/bash
# usage: seed_matrix.sh [parallel]   -- every seeded change against the quick check of the property it breaks
cd "$(dirname "$0")/.."
P=${1:-3}
ls seeded | sed 's/\(C[0-9]*\)-\([0-9]*\)/\1-\2:\1/' | xargs -P $P -I{} bash -c 's={}; tools/seedtest2.sh ${s%%:*} ${s##*:} >/dev/null 2>&1'
python3 tools/update_seed_meta.py > logs/seeds/matrix_summary.txt
grep -c DETECTED logs/seeds/matrix_summary.txt
