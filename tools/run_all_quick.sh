#!/bin/bash
# runs every claimed quick check on /repo sequentially; prints exit code + wall per property
cd /verif
for id in $(python3 -c "import json; print(' '.join(c['property_id'] for c in json.load(open('MANIFEST.json'))['checks']))"); do
  t0=$(date +%s)
  ./check $id --tier quick > logs/all-$id.log 2>&1; rc=$?
  echo "$id rc=$rc wall=$(( $(date +%s) - t0 ))s $(tail -1 logs/all-$id.log)"
done
