#!/bin/bash
# usage: seedtest2.sh <seedid> <PROP> [check args...]
# Runs a check against a scratch worktree of /repo with the seeded patch applied (VERIF_REPO),
# writing evidence/logs/replays under /tmp/seedout/<seedid>-<PROP>; /repo itself is not touched,
# so several of these can run in parallel with normal checks.
SID=$1; shift; ID=$1; shift
WT=/tmp/seedwt/$SID-$ID; OUT=/tmp/seedout/$SID-$ID
rm -rf $OUT; mkdir -p /tmp/seedwt $OUT
git -C /repo worktree remove --force $WT 2>/dev/null
git -C /repo worktree add --detach -q $WT HEAD || exit 9
trap 'git -C /repo worktree remove --force '$WT EXIT
git -C $WT apply /verif/seeded/$SID/patch.diff || exit 8
cd /verif && VERIF_REPO=$WT VERIF_OUT=$OUT ./check $ID "$@" > $OUT/check.log 2>&1
rc=$?
echo "$SID vs $ID: exit=$rc violations=$(grep -c '^VIOLATION' $OUT/check.log) $(grep -h '^VIOLATION\|FAILED:' $OUT/check.log | head -4 | cut -c1-160 | tr '\n' '|')" | tee -a /verif/logs/seeds/SUMMARY2.txt
