#!/usr/bin/env python3
"""keep_seed.py <ID> <k> [<srcdir> <newk>] : copy a confirmed seeded change from /tmp/wt/<ID>-out into /verif/seeded/<ID>-<k>/"""
import json, os, shutil, sys, re
pid, k = sys.argv[1], sys.argv[2]
# optional: <srcdir> <newk> (round-2 seeds live in /tmp/wt/<ID>b-out and are kept as <ID>-<newk>)
src = sys.argv[3] if len(sys.argv) > 3 else "/tmp/wt/%s-out" % pid
newk = sys.argv[4] if len(sys.argv) > 4 else k
conf = open(os.path.join(src, "confirm%s.txt" % k)).read().strip()
assert conf == "demo_clean=pass demo_mutated=fail suite_mutated=pass", conf
dst = "/verif/seeded/%s-%s" % (pid, newk)
os.makedirs(dst, exist_ok=True)
shutil.copy(os.path.join(src, "patch%s.diff" % k), os.path.join(dst, "patch.diff"))
shutil.copy(os.path.join(src, "demo%s.rs" % k), os.path.join(dst, "demo.rs"))
notes = open(os.path.join(src, "notes%s.md" % k)).read()
shutil.copy(os.path.join(src, "notes%s.md" % k), os.path.join(dst, "notes.md"))
files = re.findall(r"^\+\+\+ b/(\S+)", open(os.path.join(dst, "patch.diff")).read(), re.M)
meta = {
    "id": "%s-%s" % (pid, newk),
    "breaks_property": pid,
    "files_changed": files,
    "origin": "fresh sub-agent given only the property text and its own scratch worktree (nothing from /verif)",
    "needs_to_manifest": "see notes.md (trigger section)",
    "confirmed_by_me": {
        "how": "tools/confirm_seed.sh in a scratch worktree of /repo: demo as tests/zz_demo.rs with --features alloc",
        "demo_on_clean_tree": "pass", "demo_with_patch": "fail",
        "existing_suite_with_patch (cargo test --offline, default features)": "pass",
    },
    "detected_by": [],
}
mp = os.path.join(dst, "meta.json")
if os.path.exists(mp):
    old = json.load(open(mp)); meta["detected_by"] = old.get("detected_by", []); meta["needs_to_manifest"] = old.get("needs_to_manifest", meta["needs_to_manifest"])
json.dump(meta, open(mp, "w"), indent=1)
print("kept", dst)
