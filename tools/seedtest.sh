#!/bin/bash
# usage: seedtest.sh <patch.diff> <PROP> [check args...]   -- apply to /repo, run check, ALWAYS revert
P=$1; shift; ID=$1; shift
cd /repo || exit 9
if ! git diff --quiet; then echo "/repo dirty, refusing"; exit 9; fi
trap 'git -C /repo checkout -- . ; git -C /repo status --short' EXIT
git apply "$P" || exit 8
cd /verif && ./check $ID "$@"
echo "check exit code: $?"
