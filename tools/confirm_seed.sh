#!/bin/bash
# usage: confirm_seed.sh <worktree> <outdir> <k>   -- confirms patch<k>/demo<k> in a scratch worktree
WT=$1; OUT=$2; K=$3
cd "$WT" || exit 9
export CARGO_NET_OFFLINE=true
LOG=$OUT/confirm$K.log; : > $LOG
git checkout -q -- . ; git clean -qfd tests src
cp $OUT/demo$K.rs tests/zz_demo.rs
FEAT="${CONFIRM_FEAT:---features alloc} ${CONFIRM_FLAGS:-}"
r_clean=fail; r_mut=pass; r_suite=fail
if cargo test --offline -j 4 $FEAT --test zz_demo >>$LOG 2>&1; then r_clean=pass; fi
if git apply $OUT/patch$K.diff >>$LOG 2>&1; then
  if cargo test --offline -j 4 $FEAT --test zz_demo >>$LOG 2>&1; then r_mut=pass; else r_mut=fail; fi
  rm tests/zz_demo.rs
  if cargo test --offline -j 4 >>$LOG 2>&1; then r_suite=pass; fi
else
  r_mut=patch-does-not-apply
fi
git checkout -q -- . ; git clean -qfd tests src
echo "demo_clean=$r_clean demo_mutated=$r_mut suite_mutated=$r_suite" | tee $OUT/confirm$K.txt
