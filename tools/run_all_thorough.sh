#!/bin/bash
cd "$(dirname "$0")/.."
for id in $(python3 -c "import json; print(' '.join(c['property_id'] for c in json.load(open('MANIFEST.json'))['checks']))"); do
  t0=$(date +%s)
  ./check $id --tier thorough > /tmp/thorough-$id.log 2>&1; rc=$?
  echo "$id rc=$rc wall=$(( $(date +%s) - t0 ))s $(tail -1 /tmp/thorough-$id.log)"
done
