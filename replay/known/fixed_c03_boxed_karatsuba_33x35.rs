// Native demonstration of the defect repaired by /repo commit afee340 (fix: boxed Karatsuba trailing-limb accumulation
// drops a carry): on the parent commit f4ceec5 `a.mul(&b)` (33 x 35 limbs) differs from the true product while `b.mul(&a)`
// is right.  Drop into <crate>/tests/ and run: cargo test --offline --features alloc --test fixed_c03_boxed_karatsuba_33x35
use crypto_bigint::BoxedUint;
const A: &str = "ffffffffffffffffffffffffffffffff8b4bf5f658e215b7ffffffffffffffff00000000000000010000000000000000fffffffffffffffefffffffffffffffefffffffffffffffffffffffffffffffffffffffffffffffffffffffffffffffffffffffffffffffe0000000000000001fffffffffffffffeffffffffffffffff06205860613df97afffffffffffffffe0000000000000000fffffffffffffffe0000000000000001ffffffffffffffff00000000000000010000000000000001000000000000000000000000000000010000000000000001fffffffffffffffeffffffffffffffff0000000000000000fffffffffffffffe4c8cb8dcc3b8fc3e0000000000000000";
const B: &str = "ffffffffffffffffffffffffffffffffffffffffffffffff00000000000000010272e7e52e093bf000000000000000000000000000000000aed7e1b8d650198ffffffffffffffffe0000000000000000fffffffffffffffefffffffffffffffefffffffffffffffffffffffffffffffe0000000000000001fffffffffffffffefffffffffffffffe0000000000000001540b7e0e92cc91411fa9ff07aff58061fffffffffffffffe0000000000000001ffffffffffffffff000000000000000000000000000000010000000000000001fffffffffffffffe25a5c1582125f72ce0b6821108d959a200000000000000000000000000000000fffffffffffffffffffffffffffffffe0000000000000000c55f0b673a67b865";
const R: &str = "ffffffffffffffffffffffffffffffff8b4bf5f658e215b700000000000000000272e7e52e093bf174b40a09a71dea488a2e2bfede2f2eae5126749a18bdde0cfd8d181ad1f6c40db2be1ef7b06ad57678996a33dad46b6f381d4a7549e27f0e37b0efca0128f359238bebc27d6e03d4c5dc2850d0cdd0b851281e4729afe673ef886c73af79ce0311b21c2255b1b393cda557e295fcf369007ed2d56eea1f840b085325cbf73cc73bb1be6b3a22579b5214a26cdd512dba7593bfe91de301c9ccc05641211d1d69db47e69ab13d2b2d3ecfd51dc6c2c5812fea8459ea3d9bd05150c0f43408fab229669cb8b1fa73895fb77f9dc11862a224d5f200736f1d6aa51efd0f4eb389ce1d15027335cac0c428737d4c085b95c188ad5689bd7ec50592376f76387a9f4c2c7e6bf5448c889f950d1826a7f4fdfa848ad39a6ee7d18bcc4296fe3dc841104b8e036afdff894609d1ac5cf7aa0c12c166f640627800bba7ab5e36f4ef284ada89da0672075ee0e89aaef06403abe3508b0affac80e619afe4a2aa00cdc449a768decf4207b7f799570136651283993e5ecdcf8585b61abcdef9890c97f05c841e3e78e2ffa80454b73516129cdaf926855998655c2ce080d16a0c5f51f304a367bc67da264e71ccf28049f9be8763e52c0ce8a68141833f64b2f425b6e5a58abe16ce74cf70c9872dad75895143d63aa0f498c598479f2c4599adb2f5bfe7b0469f14f1c14dd6c0d46b4bb63a14760000000000000000";
#[test]
fn boxed_mul_33_by_35_limbs() {
    let a = BoxedUint::from_be_hex(A, 33 * 64).unwrap();
    let b = BoxedUint::from_be_hex(B, 35 * 64).unwrap();
    let want = BoxedUint::from_be_hex(R, 68 * 64).unwrap();
    let ab = a.mul(&b);
    let ba = b.mul(&a);
    println!("a*b == want: {}", ab == want);
    println!("b*a == want: {}", ba == want);
    assert_eq!(ba, want, "b*a");
    assert_eq!(ab, want, "a*b");
}
