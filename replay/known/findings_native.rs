// Native (64-bit words, public API only) demonstrations of known findings recorded in
// /verif/known_findings.json.  Drop into <crate>/tests/ and run
//   cargo test --offline --features alloc --test findings_native
// Every test PASSES on the pinned tree: each asserts the defective behaviour it documents.
use crypto_bigint::{BoxedUint, I128, NonZero, U64};

/// int_rem_uint_vartime_narrow_remainder (C14)
#[test]
fn narrow_remainder() {
    let n = I128::from_i128((1i128 << 63) + 5);
    let d = NonZero::new(U64::MAX).unwrap();
    let (_q, r) = n.div_rem_uint_vartime(&d);
    // true remainder is 2^63 + 5 (positive, < d); the returned Int<1> is negative
    assert!(bool::from(r.is_negative()));
}

/// boxed_div_rem_mixed_precision (C11, C02): the constant-time form panics, the vartime twin works
#[test]
#[should_panic(expected = "precision of the divisor")]
fn boxed_mixed_div_rem_panics() {
    let n = BoxedUint::from_words([7u64, 1]);
    let d = NonZero::new(BoxedUint::from(3u64)).unwrap();
    let _ = n.div_rem(&d);
}
#[test]
fn boxed_mixed_div_rem_vartime_ok() {
    let n = BoxedUint::from_words([7u64, 1]);
    let d = NonZero::new(BoxedUint::from(3u64)).unwrap();
    let (_q, r) = n.div_rem_vartime(&d);
    assert_eq!(r, BoxedUint::from(2u64));
}
