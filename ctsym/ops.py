"""Wrapper table for C01: one monomorphic #[no_mangle] function per (public operation x width).

Each entry: name, Rust body, params.  Param kinds:
  sec:N   pointer to N secret bytes (fresh symbolic 64-bit words)
  pub:N   pointer to N public bytes; `values` lists concrete byte strings (hex) to enumerate
  out:N   pointer to N output bytes
  val:T   public scalar passed by value (u32); `values` lists the concrete values to enumerate
  secval:T secret scalar passed by value
`expect` = None for operations documented constant-time, or "vartime" for operations documented as
variable-time in an operand that is passed as SECRET here on purpose (a sanity witness that the engine
does report leaks: it must come back LEAK).
"""

P256 = "ffffffff00000000ffffffffffffffffbce6faada7179e84f3b9cac2fc632551"  # big-endian hex of an odd modulus


def le_words_hex(be_hex):
    b = bytes.fromhex(be_hex)[::-1]
    return b.hex()


U = {64: "U64", 128: "U128", 192: "U192", 256: "U256"}

OPS = []


def op(name, params, body, tier="quick", expect=None, note="", profile="k64"):
    OPS.append(dict(name=name, params=params, body=body, tier=tier, expect=expect, note=note, profile=profile))


def uint_ops(bits, tier="quick"):
    T = U[bits]
    n = bits // 8
    s = "sec:%d" % n
    o = "out:%d" % n
    op("adc_%d" % bits, [("a", T, s), ("b", T, s), ("c", "Limb", "sec:8"), ("r", T, o), ("co", "Limb", "out:8")],
       "let (x, y) = a.adc(b, *c); *r = x; *co = y;", tier)
    op("sbb_%d" % bits, [("a", T, s), ("b", T, s), ("c", "Limb", "sec:8"), ("r", T, o), ("co", "Limb", "out:8")],
       "let (x, y) = a.sbb(b, *c); *r = x; *co = y;", tier)
    op("wrapping_neg_%d" % bits, [("a", T, s), ("r", T, o)], "*r = a.wrapping_neg();", tier)
    op("split_mul_%d" % bits, [("a", T, s), ("b", T, s), ("lo", T, o), ("hi", T, o)],
       "let (x, y) = a.split_mul(b); *lo = x; *hi = y;", tier)
    op("square_wide_%d" % bits, [("a", T, s), ("lo", T, o), ("hi", T, o)],
       "let (x, y) = a.square_wide(); *lo = x; *hi = y;", tier)
    op("shl_secret_shift_%d" % bits, [("a", T, s), ("sh", "u32", "secval:32"), ("r", T, o)],
       "*r = a.wrapping_shl(sh);", tier)
    op("shr_secret_shift_%d" % bits, [("a", T, s), ("sh", "u32", "secval:32"), ("r", T, o)],
       "*r = a.wrapping_shr(sh);", tier)
    op("shl_vartime_public_shift_%d" % bits, [("a", T, s), ("sh", "u32", "val:u32", [0, 1, 63, 64, 65, bits - 1, bits, bits + 7]), ("r", T, o)],
       "*r = a.wrapping_shl_vartime(sh);", tier)
    op("bits_%d" % bits, [("a", T, s), ("r", "u32", "out:4")], "*r = a.bits();", tier)
    op("leading_trailing_%d" % bits, [("a", T, s), ("r", "[u32; 3]", "out:12")],
       "*r = [a.leading_zeros(), a.trailing_zeros(), a.trailing_ones()];", tier)
    op("bit_secret_index_%d" % bits, [("a", T, s), ("i", "u32", "secval:32"), ("r", "u8", "out:1")],
       "*r = a.bit(i).into();" if False else "*r = bool::from(subtle::Choice::from(a.bit(i))) as u8;", tier)
    op("cmp_%d" % bits, [("a", T, s), ("b", T, s), ("r", "i8", "out:1")], "*r = Ord::cmp(a, b) as i8;", tier)
    op("ct_eq_lt_gt_%d" % bits, [("a", T, s), ("b", T, s), ("r", "[u8; 3]", "out:3")],
       "*r = [a.ct_eq(b).unwrap_u8(), a.ct_lt(b).unwrap_u8(), a.ct_gt(b).unwrap_u8()];", tier)
    op("select_%d" % bits, [("a", T, s), ("b", T, s), ("c", "u8", "secval:8"), ("r", T, o)],
       "*r = %s::conditional_select(a, b, subtle::Choice::from(c & 1));" % T, tier)
    op("div_rem_%d" % bits, [("a", T, s), ("b", T, s), ("q", T, o), ("r", T, o)],
       "let nz = NonZero::new(*b).unwrap(); let (x, y) = a.div_rem(&nz); *q = x; *r = y;", tier)
    op("div_rem_limb_%d" % bits, [("a", T, s), ("b", "Limb", "sec:8"), ("q", T, o), ("r", "Limb", "out:8")],
       "let nz = NonZero::new(*b).unwrap(); let (x, y) = a.div_rem_limb(nz); *q = x; *r = y;", tier)
    op("add_mod_%d" % bits, [("a", T, s), ("b", T, s), ("p", T, s), ("r", T, o)], "*r = a.add_mod(b, p);", tier)
    op("sub_mod_%d" % bits, [("a", T, s), ("b", T, s), ("p", T, s), ("r", T, o)], "*r = a.sub_mod(b, p);", tier)
    op("neg_mod_%d" % bits, [("a", T, s), ("p", T, s), ("r", T, o)], "*r = a.neg_mod(p);", tier)
    op("double_mod_%d" % bits, [("a", T, s), ("p", T, s), ("r", T, o)], "*r = a.double_mod(p);", tier)
    op("mul_mod_special_%d" % bits, [("a", T, s), ("b", T, s), ("c", "Limb", "sec:8"), ("r", T, o)],
       "*r = a.mul_mod_special(b, *c);", tier)
    op("inv_mod2k_secret_k_%d" % bits, [("a", T, s), ("k", "u32", "secval:32"), ("r", T, o), ("ok", "u8", "out:1")],
       "let x = a.inv_mod2k(k); *ok = subtle::Choice::from(x.is_some()).unwrap_u8(); *r = x.unwrap_or(%s::ZERO);" % T, tier)
    op("sqrt_%d" % bits, [("a", T, s), ("r", T, o)], "*r = a.sqrt();", tier)
    if bits > 64:  # a one-limb cmp_vartime compiles to straight-line code: not a witness
        op("cmp_vartime_secret_%d" % bits, [("a", T, s), ("b", T, s), ("r", "i8", "out:1")],
           "*r = a.cmp_vartime(b) as i8;", tier, expect="vartime", note="witness: documented vartime in both operands")


uint_ops(256)
uint_ops(192, tier="thorough")
uint_ops(128, tier="thorough")
uint_ops(64, tier="thorough")

# inversion / gcd through the safegcd core
for bits, tier in ((256, "quick"), (128, "thorough")):
    T = U[bits]
    n = bits // 8
    s = "sec:%d" % n
    o = "out:%d" % n
    op("inv_odd_mod_public_modulus_%d" % bits,
       [("a", T, s), ("m", T, "pub:%d" % n, [le_words_hex(P256)[: 2 * n] if bits == 256 else "ffffffffffffffff" * (n // 8 - 1) + "ffffffffffffff7f"]), ("r", T, o), ("ok", "u8", "out:1")],
       "let x = a.inv_odd_mod(&Odd::new(*m).unwrap()); *ok = subtle::Choice::from(x.is_some()).unwrap_u8(); *r = x.unwrap_or(%s::ZERO);" % T, tier)
    op("inv_mod_%d" % bits, [("a", T, s), ("m", T, s), ("r", T, o), ("ok", "u8", "out:1")],
       "let x = a.inv_mod(m); *ok = subtle::Choice::from(x.is_some()).unwrap_u8(); *r = x.unwrap_or(%s::ZERO);" % T, tier)
    op("gcd_%d" % bits, [("a", T, s), ("b", T, s), ("r", T, o)], "*r = a.gcd(b);", tier)

# Montgomery forms with a public (concrete) modulus and secret values
op("monty_mul_public_modulus_256",
   [("a", "U256", "sec:32"), ("b", "U256", "sec:32"), ("m", "U256", "pub:32", [le_words_hex(P256)]), ("r", "U256", "out:32")],
   "let p = MontyParams::new_vartime(Odd::new(*m).unwrap()); let x = MontyForm::new(a, p); let y = MontyForm::new(b, p); *r = (x * y + x - y.square()).retrieve();")
op("monty_pow_public_modulus_256",
   [("a", "U256", "sec:32"), ("e", "U256", "sec:32"), ("m", "U256", "pub:32", [le_words_hex(P256)]), ("r", "U256", "out:32")],
   "let p = MontyParams::new_vartime(Odd::new(*m).unwrap()); let x = MontyForm::new(a, p); *r = x.pow(e).retrieve();")
op("monty_pow_bounded_public_k_256",
   [("a", "U256", "sec:32"), ("e", "U256", "sec:32"), ("k", "u32", "val:u32", [1, 5, 64, 65]), ("m", "U256", "pub:32", [le_words_hex(P256)]), ("r", "U256", "out:32")],
   "let p = MontyParams::new_vartime(Odd::new(*m).unwrap()); let x = MontyForm::new(a, p); *r = x.pow_bounded_exp(e, k).retrieve();", tier="thorough")
op("monty_inv_public_modulus_256",
   [("a", "U256", "sec:32"), ("m", "U256", "pub:32", [le_words_hex(P256)]), ("r", "U256", "out:32"), ("ok", "u8", "out:1")],
   "let p = MontyParams::new_vartime(Odd::new(*m).unwrap()); let x: subtle::CtOption<MontyForm<4>> = MontyForm::from_montgomery(*a, p).inv().into(); *ok = x.is_some().unwrap_u8(); *r = x.unwrap_or(MontyForm::zero(p)).retrieve();", tier="thorough")
op("monty_div_by_2_public_modulus_256",
   [("a", "U256", "sec:32"), ("m", "U256", "pub:32", [le_words_hex(P256)]), ("r", "U256", "out:32")],
   "let p = MontyParams::new_vartime(Odd::new(*m).unwrap()); *r = MontyForm::new(a, p).div_by_2().retrieve();")

# signed
op("int_checked_add_mul_128", [("a", "I128", "sec:16"), ("b", "I128", "sec:16"), ("r", "I128", "out:16"), ("ok", "[u8; 2]", "out:2")],
   "let x = a.checked_add(b); let y = CheckedMul::checked_mul(a, b); *ok = [subtle::Choice::from(x.is_some()).unwrap_u8(), y.is_some().unwrap_u8()]; *r = x.unwrap_or(I128::ZERO);")
op("int_div_rem_128", [("a", "I128", "sec:16"), ("b", "I128", "sec:16"), ("q", "I128", "out:16"), ("r", "I128", "out:16")],
   "let nz = NonZero::new(*b).unwrap(); let (x, y) = a.checked_div_rem(&nz); *q = x.unwrap_or(I128::ZERO); *r = y;")
op("int_shr_secret_shift_128", [("a", "I128", "sec:16"), ("sh", "u32", "secval:32"), ("r", "I128", "out:16")],
   "*r = a.wrapping_shr(sh);")

# limb
op("limb_ops", [("a", "Limb", "sec:8"), ("b", "Limb", "sec:8"), ("c", "Limb", "sec:8"), ("r", "[Limb; 6]", "out:48")],
   "let (x0, x1) = a.adc(*b, *c); let (y0, y1) = a.sbb(*b, *c); let (z0, z1) = a.mac(*b, *c, Limb::ONE); *r = [x0, x1, y0, y1, z0, z1];")

# vartime operations with their documented-public operand concrete
op("div_rem_vartime_public_divisor_256",
   [("a", "U256", "sec:32"), ("d", "U256", "pub:32", ["0300000000000000" + "00" * 24, "ffffffffffffffff0100000000000000" + "00" * 16, le_words_hex(P256)]), ("q", "U256", "out:32"), ("r", "U256", "out:32")],
   "let nz = NonZero::new(*d).unwrap(); let (x, y) = a.div_rem_vartime(&nz); *q = x; *r = y;")
op("rem2k_vartime_public_k_256", [("a", "U256", "sec:32"), ("k", "u32", "val:u32", [0, 1, 64, 100, 255, 256, 300]), ("r", "U256", "out:32")],
   "*r = a.rem2k_vartime(k);")
op("rem2k_vartime_secret_k_256", [("a", "U256", "sec:32"), ("k", "u32", "secval:32"), ("r", "U256", "out:32")],
   "*r = a.rem2k_vartime(k);", expect="vartime", note="witness: vartime in k")

# boxed (heap objects of concrete size)
op("boxed_add_mul_128", [("a", "U128", "sec:16"), ("b", "U128", "sec:16"), ("r", "U256", "out:32")],
   "let x = BoxedUint::from(*a); let y = BoxedUint::from(*b); let z = x.mul(&y).wrapping_add(&x.widen(256)); let mut o = [0u64; 4]; o.copy_from_slice(z.as_words()); *r = U256::from_words(o);")
op("boxed_cmp_select_128", [("a", "U128", "sec:16"), ("b", "U128", "sec:16"), ("r", "[u8; 3]", "out:3")],
   "let x = BoxedUint::from(*a); let y = BoxedUint::from(*b); *r = [x.ct_eq(&y).unwrap_u8(), x.ct_lt(&y).unwrap_u8(), (x.cmp(&y) as i8) as u8];")
op("boxed_cmp_mixed_precision", [("a", "U128", "sec:16"), ("b", "U256", "sec:32"), ("r", "[u8; 6]", "out:6")],
   "let x = BoxedUint::from(*a); let y = BoxedUint::from(*b); *r = [x.ct_eq(&y).unwrap_u8(), (y == x) as u8, x.ct_lt(&y).unwrap_u8(), y.ct_lt(&x).unwrap_u8(), x.ct_gt(&y).unwrap_u8(), (x.cmp(&y) as i8) as u8];")
op("boxed_addsub_mixed_precision", [("a", "U128", "sec:16"), ("b", "U256", "sec:32"), ("r", "U256", "out:32"), ("c", "[u8; 2]", "out:2")],
   "let x = BoxedUint::from(*a); let y = BoxedUint::from(*b); let (s, c1) = y.adc(&x, Limb::ZERO); let (d, c2) = s.sbb(&x, Limb::ZERO); let mut o = [0u64; 4]; o.copy_from_slice(d.as_words()); *r = U256::from_words(o); *c = [c1.0 as u8, c2.0 as u8];")
op("boxed_shl_secret_shift_128", [("a", "U128", "sec:16"), ("sh", "u32", "secval:32"), ("r", "U128", "out:16")],
   "let x = BoxedUint::from(*a); let z = x.wrapping_shl(sh); let mut o = [0u64; 2]; o.copy_from_slice(z.as_words()); *r = U128::from_words(o);", tier="thorough")
op("boxed_div_rem_128", [("a", "U128", "sec:16"), ("b", "U128", "sec:16"), ("q", "U128", "out:16")],
   "let x = BoxedUint::from(*a); let y = NonZero::new(BoxedUint::from(*b)).unwrap(); let (z, _) = x.div_rem(&y); let mut o = [0u64; 2]; o.copy_from_slice(z.as_words()); *q = U128::from_words(o);", tier="thorough")


# ---- the same generic source in the 8-bit-word build (vlib/narrow.py): there the solver can also
# decide leak points that sit behind multiplications (e.g. the Knuth add-back condition), which it
# cannot at 64-bit words.  Claims about these wrappers are about the optimised IR of that build.
def k8_ops():
    for L, tier in ((4, "quick"), (3, "quick"), (2, "thorough")):
        T = "Uint<%d>" % L
        s, o = "sec:%d" % L, "out:%d" % L
        op("k8_div_rem_%d" % L, [("a", T, s), ("b", T, s), ("q", T, o), ("r", T, o)],
           "let nz = NonZero::new(*b).unwrap(); let (x, y) = a.div_rem(&nz); *q = x; *r = y;", tier, profile="k8")
        op("k8_rem_%d" % L, [("a", T, s), ("b", T, s), ("r", T, o)],
           "let nz = NonZero::new(*b).unwrap(); *r = a.rem(&nz);", tier, profile="k8")
        op("k8_div_rem_limb_%d" % L, [("a", T, s), ("b", "Limb", "sec:1"), ("q", T, o), ("r", "Limb", "out:1")],
           "let nz = NonZero::new(*b).unwrap(); let (x, y) = a.div_rem_limb(nz); *q = x; *r = y;", tier, profile="k8")
        op("k8_split_mul_%d" % L, [("a", T, s), ("b", T, s), ("lo", T, o), ("hi", T, o)],
           "let (x, y) = a.split_mul(b); *lo = x; *hi = y;", tier, profile="k8")
        op("k8_sqrt_%d" % L, [("a", T, s), ("r", T, o)], "*r = a.sqrt();", tier, profile="k8")
        op("k8_mul_mod_special_%d" % L, [("a", T, s), ("b", T, s), ("c", "Limb", "sec:1"), ("r", T, o)],
           "*r = a.mul_mod_special(b, *c);", tier, profile="k8")
        op("k8_cmp_%d" % L, [("a", T, s), ("b", T, s), ("r", "i8", "out:1")], "*r = Ord::cmp(a, b) as i8;", tier, profile="k8")
        op("k8_add_sub_mod_%d" % L, [("a", T, s), ("b", T, s), ("p", T, s), ("r", "[%s; 3]" % T, "out:%d" % (3 * L))],
           "*r = [a.add_mod(b, p), a.sub_mod(b, p), a.neg_mod(p)];", tier, profile="k8")
        op("k8_inv_mod2k_%d" % L, [("a", T, s), ("k", "u32", "secval:32"), ("r", T, o)],
           "*r = a.inv_mod2k(k).unwrap_or(Uint::ZERO);", tier, profile="k8")
    op("k8_int_div_rem_2", [("a", "Int<2>", "sec:2"), ("b", "Int<2>", "sec:2"), ("q", "Int<2>", "out:2"), ("r", "Int<2>", "out:2")],
       "let nz = NonZero::new(*b).unwrap(); let (x, y) = a.checked_div_rem(&nz); *q = x.unwrap_or(Int::ZERO); *r = y;", profile="k8")
    op("k8_monty_mul_pow_2", [("a", "Uint<2>", "sec:2"), ("e", "Uint<2>", "sec:2"), ("m", "Uint<2>", "pub:2", ["fbff", "0380", "0300"]), ("r", "Uint<2>", "out:2")],
       "let p = MontyParams::new_vartime(Odd::new(*m).unwrap()); let x = MontyForm::new(a, p); *r = (x * x.pow(e)).retrieve();", profile="k8")


k8_ops()


def rust_type_size(t):
    return {"u8": 1, "i8": 1, "u32": 4}.get(t)
