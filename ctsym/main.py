"""C01 driver: wrappers -> optimised LLVM IR -> relational symbolic execution -> native replay."""
import glob
import json
import os
import random
import re
import shutil
import subprocess
import sys
import time

import z3

VERIF = os.path.dirname(os.path.dirname(os.path.abspath(__file__)))
sys.path.insert(0, VERIF)
from vlib import derive  # noqa: E402
from ctsym import ops as opsmod  # noqa: E402
from ctsym.llir import Module  # noqa: E402
from ctsym.run import Runner  # noqa: E402
from ctsym.symex import Ptr, Leak, Unsupported, is_sym  # noqa: E402

OUT = os.environ.get("VERIF_OUT", VERIF)
KNOWN = os.path.join(VERIF, "known_findings.json")


def log(*a):
    print(*a, flush=True)


def psize(kind):
    return int(kind.split(":")[1])


def rust_sig(o):
    ps = []
    for p in o["params"]:
        name, ty, kind = p[0], p[1], p[2]
        k = kind.split(":")[0]
        if k in ("sec", "pub"):
            ps.append("%s: &%s" % (name, ty))
        elif k == "out":
            ps.append("%s: &mut %s" % (name, ty))
        else:
            ps.append("%s: %s" % (name, ty))
    return ", ".join(ps)


def gen_crate(dst, crate_path, oplist):
    os.makedirs(os.path.join(dst, "src", "bin"), exist_ok=True)
    with open(os.path.join(dst, "Cargo.toml"), "w") as fh:
        fh.write('[package]\nname = "ctw"\nversion = "0.0.0"\nedition = "2024"\n\n[lib]\ncrate-type = ["staticlib", "rlib"]\n\n'
                 '[dependencies]\ncrypto-bigint = { path = "%s", default-features = false, features = ["alloc"] }\n'
                 'subtle = { version = "2.6", default-features = false }\n\n'
                 '[profile.release]\nopt-level = 3\ncodegen-units = 1\nlto = "fat"\npanic = "abort"\ndebug = "line-tables-only"\n\n[workspace]\n'
                 % crate_path)
    shutil.copy(os.path.join(crate_path, "Cargo.lock"), os.path.join(dst, "Cargo.lock"))
    os.makedirs(os.path.join(dst, ".cargo"), exist_ok=True)
    with open(os.path.join(dst, ".cargo", "config.toml"), "w") as fh:
        fh.write("[net]\noffline = true\n")
    lib = ["#![allow(unused_imports, clippy::all)]",
           "use crypto_bigint::{modular::{MontyForm, MontyParams}, BoxedUint, CheckedMul, Int, Uint, I128, Limb, NonZero, Odd, U128, U192, U256, U64};",
           "use crypto_bigint::subtle::{self, ConditionallySelectable, ConstantTimeEq, ConstantTimeGreater, ConstantTimeLess};", ""]
    for o in oplist:
        lib.append("#[unsafe(no_mangle)]\n#[inline(never)]\npub fn w_%s(%s) {\n    %s\n}\n" % (o["name"], rust_sig(o), o["body"]))
    with open(os.path.join(dst, "src", "lib.rs"), "w") as fh:
        fh.write("\n".join(lib))
    # native runner: ctw_run <op> ; stdin = one hex line per in-param (LE bytes) / decimal for scalars
    mn = ["#![allow(unused_imports, unused_mut)]", "use std::io::BufRead;", "use crypto_bigint::{Int, Uint, I128, Limb, U128, U192, U256, U64};",
          "static mut MARK: u64 = 0;",
          "fn hex(s: &str) -> Vec<u8> { (0..s.len() / 2).map(|i| u8::from_str_radix(&s[2 * i..2 * i + 2], 16).unwrap()).collect() }",
          "fn out(b: &[u8]) { println!(\"{}\", b.iter().map(|x| format!(\"{:02x}\", x)).collect::<String>()); }",
          "fn main() {",
          "    let name = std::env::args().nth(1).unwrap();",
          "    let lines: Vec<String> = std::io::stdin().lock().lines().map(|l| l.unwrap()).collect();",
          "    println!(\"MARK_ADDR={:x}\", &raw const MARK as usize);",
          "    match name.as_str() {"]
    for o in oplist:
        mn.append('        "%s" => {' % o["name"])
        li = 0
        call = []
        outs = []
        for p in o["params"]:
            name, ty, kind = p[0], p[1], p[2]
            k = kind.split(":")[0]
            n = None if k in ("val", "secval") else psize(kind)
            if k in ("sec", "pub"):
                mn.append("            let b_%s = hex(&lines[%d]); let mut v_%s: %s = unsafe { std::mem::zeroed() };" % (name, li, name, ty))
                mn.append("            unsafe { std::ptr::copy_nonoverlapping(b_%s.as_ptr(), &mut v_%s as *mut _ as *mut u8, %d); }" % (name, name, n))
                call.append("&v_%s" % name)
                li += 1
            elif k == "out":
                mn.append("            let mut v_%s: %s = unsafe { std::mem::zeroed() };" % (name, ty))
                call.append("&mut v_%s" % name)
                outs.append((name, n))
            else:
                mn.append("            let v_%s: %s = lines[%d].trim().parse::<u64>().unwrap() as %s;" % (name, ty, li, ty))
                call.append("v_%s" % name)
                li += 1
        mn.append("            unsafe { std::ptr::write_volatile(&raw mut MARK, 1); }")
        mn.append("            ctw::w_%s(%s);" % (o["name"], ", ".join(call)))
        mn.append("            unsafe { std::ptr::write_volatile(&raw mut MARK, 2); }")
        for name, n in outs:
            mn.append("            out(unsafe { std::slice::from_raw_parts(&v_%s as *const _ as *const u8, %d) });" % (name, n))
        mn.append("        }")
    mn.append('        _ => panic!("unknown op"),')
    mn.append("    }\n}")
    with open(os.path.join(dst, "src", "bin", "ctw_run.rs"), "w") as fh:
        fh.write("\n".join(mn))


def build(dst, logf):
    env = dict(os.environ, CARGO_NET_OFFLINE="true")
    env.pop("RUSTFLAGS", None)
    t0 = time.time()
    p = subprocess.run(["cargo", "rustc", "--release", "--offline", "--lib", "--crate-type", "staticlib", "--", "--emit=llvm-ir"], cwd=dst, env=env,
                       stdout=subprocess.PIPE, stderr=subprocess.STDOUT, text=True)
    logf.write(p.stdout[-8000:])
    if p.returncode != 0:
        return None, None, p.stdout[-3000:]
    lls = sorted(glob.glob(os.path.join(dst, "target", "release", "deps", "ctw-*.ll")), key=os.path.getsize, reverse=True)
    p2 = subprocess.run(["cargo", "build", "--release", "--offline", "--bin", "ctw_run"], cwd=dst, env=env,
                        stdout=subprocess.PIPE, stderr=subprocess.STDOUT, text=True)
    logf.write(p2.stdout[-8000:])
    if p2.returncode != 0 or not lls:
        return None, None, p2.stdout[-3000:]
    return lls[0], os.path.join(dst, "target", "release", "ctw_run"), "%.0fs" % (time.time() - t0)


# ------------------------------------------------------------------ one execution
def setup_args(r, o, pubvals, concrete=None):
    """-> (args, outs[(name, objid, n)]).  concrete: dict name -> bytes/int to run concretely."""
    args, outs = [], []
    for p in o["params"]:
        name, ty, kind = p[0], p[1], p[2]
        k = kind.split(":")[0]
        if k in ("sec", "pub", "out"):
            n = psize(kind)
            obj = r.new_obj(n, name)
            if k == "sec":
                for off in range(0, n, 8):
                    w = min(8, n - off)
                    if concrete is not None:
                        r.store(Ptr(obj, off), int.from_bytes(concrete[name][off:off + w], "little"), w)
                    else:
                        r.store(Ptr(obj, off), r.fresh_secret("%s_%d" % (name, off // 8), 8 * w), w)
            elif k == "pub":
                b = bytes.fromhex(pubvals[name])
                for off in range(0, n, 8):
                    w = min(8, n - off)
                    r.store(Ptr(obj, off), int.from_bytes(b[off:off + w], "little"), w)
            else:
                outs.append((name, obj, n))
            args.append(Ptr(obj, 0))
        elif k == "val":
            args.append(pubvals[name])
        else:  # secval
            bits = psize(kind)
            if concrete is not None:
                args.append(concrete[name])
            else:
                args.append(r.fresh_secret(name, bits))
    return args, outs


def pub_assignments(o):
    """cartesian product of the public parameter values"""
    combos = [{}]
    for p in o["params"]:
        k = p[2].split(":")[0]
        if k in ("pub", "val"):
            combos = [dict(c, **{p[0]: v}) for c in combos for v in p[3]]
    return combos


def leak_text(mod, e):
    loc = mod.dbg_location(e.where[1]) if e.where[1] else "(no debug location)"
    site = "%s | %s | %s" % (e.where[0], e.where[2], e.where[3]) if len(e.where) > 3 else str(e.where)
    return loc, site


def match_finding(kf, opname, kind, loc, site, vars=()):
    for f in kf:
        if not re.search(f["wrapper_re"], opname) or f["kind"] != kind:
            continue
        if not all(c in (loc + " " + site) for c in f["contains"]):
            continue
        if f.get("location_re") and not re.search(f["location_re"], loc):
            continue
        only = f.get("expr_params_only")
        if only is not None:
            params = {re.sub(r"_\d+$", "", v) for v in vars}
            if not params or not params <= set(only):
                continue
        return f
    return None


class StopAtKnownLeak(Exception):
    pass


def analyse(mod, o, pv, timeout_ms, kf=()):
    r = Runner(mod, timeout_ms=timeout_ms)
    hits = []

    def on_leak(e):
        loc, site = leak_text(mod, e)
        if o.get("profile") == "k8" and e.kind == "division-operand" and "(reciprocal)" in loc:
            # narrowing artefact: the 8-bit build replaces the 64-bit reciprocal() table code by its
            # defining division; the real code has no division there (assumption, listed in the evidence)
            return True
        f = match_finding(kf, o["name"], e.kind, loc, site, e.vars)
        if f is not None:
            hits.append((f, loc, site))
            if not f.get("continue"):
                raise StopAtKnownLeak()
            r.timeout_ms = min(r.timeout_ms, 20000)  # best-effort continuation past a recorded leak
            return True
        return False

    r.on_leak = on_leak
    args, _ = setup_args(r, o, pv)
    t0 = time.time()
    res = {"op": o["name"], "public": {k: (v if isinstance(v, int) else v[:16] + "..") for k, v in pv.items()}}
    try:
        r.run_function(mod.funcs["w_" + o["name"]], args)
        res["verdict"] = "secret-independent"
    except Leak as e:
        loc, site = leak_text(mod, e)
        res.update(verdict="leak", kind=e.kind, location=loc, expr=e.expr[:200], witness=e.witness, ir_site=site)
    except StopAtKnownLeak:
        res["verdict"] = "known-leak (execution stopped at the recorded leak; later leak points of this wrapper not examined)"
    except Unsupported as e:
        res.update(verdict="inconclusive", why=("after a recorded known leak: " if hits else "") + str(e)[:300])
    except RecursionError:
        res.update(verdict="inconclusive", why="recursion limit")
    except Exception as e:  # interpreter bug: never a pass
        res.update(verdict="inconclusive", why="engine error %s: %s" % (type(e).__name__, str(e)[:200]))
    res["stats"] = dict(r.stats, solver_s=round(r.stats["solver_s"], 3), wall_s=round(time.time() - t0, 2))
    res["known_leaks"] = [{"key": f["key"], "location": loc, "ir_site": site[:200]} for f, loc, site in hits]
    res["_hits"] = hits
    return res


def run_native(binp, o, pv, secret):
    lines = []
    for p in o["params"]:
        k = p[2].split(":")[0]
        if k == "sec":
            lines.append(secret[p[0]].hex())
        elif k == "pub":
            lines.append(pv[p[0]])
        elif k == "val":
            lines.append(str(pv[p[0]]))
        elif k == "secval":
            lines.append(str(secret[p[0]]))
    p = subprocess.run([binp, o["name"]], input="\n".join(lines) + "\n", stdout=subprocess.PIPE, stderr=subprocess.PIPE,
                       text=True, timeout=60)
    if p.returncode != 0:
        return None
    return [l for l in p.stdout.splitlines() if not l.startswith("MARK_ADDR")]


def validate_translator(mod, binp, o, pv, rng, n=2):
    """Serval-style: run the interpreter concretely and compare with the native binary."""
    ok = 0
    for _ in range(n):
        secret = {}
        for p in o["params"]:
            k = p[2].split(":")[0]
            if k == "sec":
                nb = psize(p[2])
                choice = rng.random()
                b = bytes(rng.getrandbits(8) for _ in range(nb))
                if choice < 0.15:
                    b = bytes([0xff] * nb)
                elif choice < 0.3:
                    b = bytes([1] + [0] * (nb - 1))
                secret[p[0]] = b
            elif k == "secval":
                secret[p[0]] = rng.choice([0, 1, 63, 64, 65, rng.getrandbits(8)]) & ((1 << psize(p[2])) - 1)
        nat = run_native(binp, o, pv, secret)
        if nat is None:
            continue  # native run panicked (e.g. zero divisor): outside the domain
        r = Runner(mod)
        args, outs = setup_args(r, o, pv, concrete=secret)
        try:
            r.run_function(mod.funcs["w_" + o["name"]], args)
        except Unsupported as e:
            return False, "interpreter: %s" % e
        except Exception as e:
            return False, "interpreter error %s: %s" % (type(e).__name__, str(e)[:200])
        got = []
        for name, obj, nb in outs:
            bs = bytearray()
            for k in range(nb):
                v = r.load(Ptr(obj, k), 1)
                if is_sym(v) or isinstance(v, Ptr):
                    return False, "symbolic output in concrete mode"
                bs.append(v)
            got.append(bytes(bs).hex())
        if got != nat:
            return False, "mismatch on %s: interp %s native %s" % (secret, got, nat)
        ok += 1
    return True, ok


# ------------------------------------------------------------------ replay on the machine code
def lackey_trace(binp, o, pv, secret):
    lines = []
    for p in o["params"]:
        k = p[2].split(":")[0]
        if k == "sec":
            lines.append(secret[p[0]].hex())
        elif k == "pub":
            lines.append(pv[p[0]])
        elif k == "val":
            lines.append(str(pv[p[0]]))
        elif k == "secval":
            lines.append(str(secret[p[0]]))
    p = subprocess.run(["valgrind", "--tool=lackey", "--trace-mem=yes", "--log-fd=2", binp, o["name"]],
                       input="\n".join(lines) + "\n", stdout=subprocess.PIPE, stderr=subprocess.PIPE, text=True, timeout=600)
    m = re.search(r"MARK_ADDR=([0-9a-f]+)", p.stdout)
    if not m:
        return None
    mark = m.group(1).lstrip("0")
    tr = p.stderr.splitlines()
    idx = [i for i, l in enumerate(tr) if l.startswith(" S ") and l[3:].split(",")[0].lstrip("0") == mark]
    if len(idx) < 2:
        return None
    return tr[idx[0] + 1: idx[1]]


def witness_to_secret(o, w):
    sec = {}
    for p in o["params"]:
        k = p[2].split(":")[0]
        if k == "sec":
            nb = psize(p[2])
            b = bytearray()
            for off in range(0, nb, 8):
                wd = min(8, nb - off)
                b += int(w.get("%s_%d" % (p[0], off // 8), 0)).to_bytes(wd, "little")
            sec[p[0]] = bytes(b)
        elif k == "secval":
            sec[p[0]] = int(w.get(p[0], 0))
    return sec


def replay(binp, o, pv, witness):
    s1, s2 = witness_to_secret(o, witness[0]), witness_to_secret(o, witness[1])
    t1, t2 = lackey_trace(binp, o, pv, s1), lackey_trace(binp, o, pv, s2)
    if t1 is None or t2 is None:
        return None, "no trace (native run failed or markers missing)"
    if t1 != t2:
        # first difference
        k = next((i for i, (a, b) in enumerate(zip(t1, t2)) if a != b), min(len(t1), len(t2)))
        return True, "traces differ: lengths %d / %d, first difference at event %d (%s | %s)" % (
            len(t1), len(t2), k, t1[k] if k < len(t1) else "-", t2[k] if k < len(t2) else "-")
    return False, "identical instruction/address traces (%d events)" % len(t1)


def run_ops(mod, binp, oplist, kf, timeout_ms, rng, results, violations, known_hits, inconclusive, tv):
    for o in oplist:
        for pv in pub_assignments(o):
            res = analyse(mod, o, pv, timeout_ms, kf)
            hits = res.pop("_hits")
            for f, loc, site in hits:
                known_hits.append((f, dict(res, location=loc)))
            res["expect"] = o["expect"]
            res["profile"] = o.get("profile", "k64")
            heavy = re.search(r"inv_|gcd|pow|monty|sqrt", o["name"]) is not None
            ok, info = validate_translator(mod, binp, o, pv, rng, n=1 if heavy else 2)
            tv[1] += 1
            res["translator_validated"] = bool(ok)
            if ok:
                tv[0] += 1
            else:
                res["translator_note"] = str(info)[:300]
            results.append(res)
            tag = "%s %s" % (o["name"], res["public"] or "")
            if not res.get("translator_validated"):
                inconclusive.append({"op": tag, "why": "translator validation failed: %s" % res.get("translator_note")})
                log("INCONCLUSIVE %s translator validation failed: %s" % (tag, res.get("translator_note")))
                continue
            if res["verdict"].startswith("known-leak"):
                continue
            if res["verdict"] == "inconclusive":
                inconclusive.append({"op": tag, "why": res["why"]})
                log("INCONCLUSIVE %s: %s" % (tag, res["why"]))
            elif res["verdict"] == "leak":
                if o["expect"] == "vartime":
                    res["class"] = "expected-vartime-witness"
                    continue
                ok, info = replay(binp, o, pv, res["witness"])
                res["replay"] = {"reproduced": ok, "info": info}
                rp = os.path.join(OUT, "replay", "C01", "%s.json" % o["name"])
                with open(rp, "w") as fh:
                    json.dump({"op": o["name"], "public": pv, "witness": res["witness"], "location": res["location"],
                               "ir_site": res.get("ir_site"), "kind": res["kind"], "replay": res["replay"]}, fh, indent=1)
                if ok:
                    violations.append((o, res, rp))
                    res["class"] = "violation"
                else:
                    inconclusive.append({"op": tag, "why": "IR-level leak not reproduced on machine code: %s" % info})
                    log("INCONCLUSIVE %s leak at %s not reproduced natively: %s" % (tag, res["location"], info))
            else:
                if o["expect"] == "vartime":
                    inconclusive.append({"op": tag, "why": "sanity witness did NOT leak (engine blind?)"})
                    log("INCONCLUSIVE %s: documented-vartime witness was not reported as a leak" % tag)


# ------------------------------------------------------------------ check
def check(tier, seed):
    t0 = time.time()
    os.makedirs(os.path.join(OUT, "logs"), exist_ok=True)
    os.makedirs(os.path.join(OUT, "evidence"), exist_ok=True)
    os.makedirs(os.path.join(OUT, "replay", "C01"), exist_ok=True)
    logp = os.path.join(OUT, "logs", "C01-%s.log" % tier)
    rng = random.Random(seed or 1)
    oplist = [o for o in opsmod.OPS if tier == "thorough" or o["tier"] == "quick"]
    only = os.environ.get("CTSYM_ONLY")
    if only:
        oplist = [o for o in oplist if re.search(only, o["name"])]
    results, violations, known_hits, inconclusive = [], [], [], []
    tv = [0, 0]
    info = ""
    known = json.load(open(KNOWN)) if os.path.exists(KNOWN) else {"findings": []}
    kf = [f for f in known.get("findings", []) if f.get("property") == "C01" and "wrapper_re" in f]
    timeout_ms = 60000 if tier == "quick" else 600000
    with open(logp, "w") as logf:
        for profile in ("k64", "k8"):
            plist = [o for o in oplist if o.get("profile", "k64") == profile]
            if not plist:
                continue
            try:
                top = derive.make_copy("C01-%s" % profile, [], narrow=(profile == "k8"))
            except Exception as e:
                inconclusive.append({"op": "<%s copy>" % profile, "why": "derive/narrow failed: %r" % (e,)})
                log("INCONCLUSIVE %s derived copy failed: %r" % (profile, e))
                continue
            try:
                wdir = os.path.join(top, "ctw")
                gen_crate(wdir, os.path.join(top, "crate"), plist)
                ll, binp, info = build(wdir, logf)
                if ll is None:
                    log("INCONCLUSIVE %s wrapper crate does not build:\n%s" % (profile, info))
                    inconclusive.append({"op": "<%s build>" % profile, "why": info[-300:]})
                    continue
                mod = Module(ll)
                run_ops(mod, binp, plist, kf, timeout_ms, rng, results, violations, known_hits, inconclusive, tv)
            finally:
                derive.remove(top)
    tv_ok, tv_total = tv
    seen = set()
    for f, res in known_hits:
        k = (f["key"], res["op"])
        if k in seen:
            continue
        seen.add(k)
        log("KNOWN-FINDING: property=C01 %s [wrapper %s at %s]" % (f["what"], res["op"], res["location"]))
    for o, res, rp in violations:
        log("VIOLATION property=C01 replay=%s" % rp)
        log("   wrapper=%s %s leak at %s; %s" % (o["name"], res["kind"], res["location"], res["replay"]["info"]))
    wall = time.time() - t0
    write_evidence(tier, seed, results, violations, known_hits, inconclusive, tv_ok, tv_total, wall, info)
    n_ct = len([r for r in results if r["verdict"] == "secret-independent" and r.get("translator_validated")])
    log("C01 tier=%s: %d wrapper instances, %d secret-independent, %d known-finding, %d violation, %d inconclusive, %.0fs"
        % (tier, len(results), n_ct, len(known_hits), len(violations), len(inconclusive), wall))
    if violations:
        return 1
    if inconclusive:
        return 2
    return 0


def write_evidence(tier, seed, results, violations, known_hits, inconclusive, tv_ok, tv_total, wall, buildinfo):
    q = sum(r["stats"]["queries"] for r in results) if results else 0
    ev = {
        "property_id": "C01", "tier": tier, "seed": int(seed or 0), "level": "model_checking",
        "coverage": {
            "evaluations": max(q + len(results), 1),
            "distinct_nontrivial": len([r for r in results if r["verdict"] != "inconclusive"]),
            "rule": "one wrapper instance = one public non-vartime operation at one width with one assignment of its public "
                    "parameters; its optimised LLVM IR (rustc -C opt-level=3, lto=fat, codegen-units=1) is executed symbolically on a "
                    "single path with all secret operands symbolic; at every branch condition, memory address, mem-intrinsic length and "
                    "variable-divisor division operand z3 decides the 2-safety query 'can two admissible secrets make this value differ?'. "
                    "evaluations = solver queries + wrapper instances; distinct_nontrivial = instances with a conclusive verdict.",
            "samples": [{k: v for k, v in r.items() if k != "witness"} for r in results][:400],
            "states": max(sum(r["stats"]["instructions"] for r in results), 1) if results else 1,
            "transitions": max(sum(r["stats"]["leak_points_symbolic"] for r in results), 1) if results else 1,
            "traces_validated_against_impl": tv_ok,
            "translator_validation": "%d/%d wrapper instances: interpreter run concretely equals the native release binary" % (tv_ok, tv_total),
            "solver_time_s": round(sum(r["stats"]["solver_s"] for r in results), 2) if results else 0,
            "queries": q,
            "panic_guards_assumed": sum(r["stats"]["guards_assumed"] for r in results) if results else 0,
            "inconclusive": inconclusive,
            "known_findings": [{"key": f["key"], "wrapper": r["op"], "location": r["location"]} for f, r in known_hits][:200],
            "explanation": "states = IR instructions executed; transitions = leak points whose value was symbolic and had to be decided by the solver",
            "exhaustive": False,
        },
        "assumptions": [
            "LLVM IR level: `select`, arithmetic and shifts are assumed to be lowered without secret-dependent branches by the x86-64 back end; machine-code lowering is outside the claim (leaks found are replayed on the machine code with valgrind lackey)",
            "division by a compile-time constant is not a leak point (strength-reduced by the back end)",
            "panic guards (a branch to a block ending in `unreachable`) are assumed not taken and their negated condition is added to the precondition of both executions: C01 speaks about non-panicking runs (totality is C11)",
            "single-path execution: after a recorded leak in a wrapper, later leak points of that wrapper are not examined",
            "widths and public parameter values are those listed per sample; all values of the secret operands at those widths are covered by the solver verdicts",
            "trusted: rustc's IR emission, the interpreter in /verif/ctsym (validated per run against native execution), z3 5.1",
        ],
        "wall_s": round(wall, 1),
        "violations": len(violations),
    }
    with open(os.path.join(OUT, "evidence", "C01.json"), "w") as fh:
        json.dump(ev, fh, indent=1, default=str)


def replay_file(path):
    rec = json.load(open(path))
    o = next(x for x in opsmod.OPS if x["name"] == rec["op"])
    top = derive.make_copy("C01-rp", [])
    try:
        wdir = os.path.join(top, "ctw")
        gen_crate(wdir, os.path.join(top, "crate"), [o])
        with open(os.devnull, "w") as lf:
            ll, binp, info = build(wdir, lf)
        if ll is None:
            log("replay: wrapper crate does not build")
            return 2
        ok, info = replay(binp, o, rec["public"], rec["witness"])
        log("replay of %s: %s" % (rec["op"], info))
        if ok:
            log("VIOLATION property=C01 replay=%s" % path)
            return 1
        return 0 if ok is False else 2
    finally:
        derive.remove(top)


if __name__ == "__main__":
    if len(sys.argv) > 2 and sys.argv[1] == "--replay":
        sys.exit(replay_file(sys.argv[2]))
    tier = sys.argv[1] if len(sys.argv) > 1 else "quick"
    sys.exit(check(tier, int(os.environ.get("VERIF_SEED", "0") or 0)))
