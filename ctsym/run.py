"""Instruction semantics for the single-path executor."""
import re

import z3

from .llir import split_top, strip_meta, first_type, dbg_of
from .symex import Machine, Ptr, Unsupported, Leak, is_sym, tosym, mask, sx

_ASSIGN = re.compile(r'^(%"[^"]+"|%[\w.$-]+) = (.*)$')
_FLAGS = re.compile(r"\b(nuw|nsw|exact|disjoint|nneg|samesign|inbounds|nusw|volatile|tail|musttail|notail|fastcc|ccc|noundef|nonnull|signext|zeroext)\b ?")


def _clean_call_arg(a):
    """'i64 noundef %x' -> ('i64', '%x')"""
    a = a.strip()
    t = first_type(a)
    rest = a[len(t):].strip()
    # drop attributes like noundef nonnull align 8 dereferenceable(32) captures(none) readonly noalias
    rest = re.sub(r"\b(noundef|nonnull|readonly|writeonly|readnone|noalias|nocapture|immarg|returned|signext|zeroext|nofree|inreg)\b", "", rest)
    rest = re.sub(r"\b(align|dereferenceable|dereferenceable_or_null)\s*\(?\d+\)?", "", rest)
    rest = re.sub(r"\b(captures|initializes|range|sret|byval)\([^)]*(\([^)]*\))*[^)]*\)", "", rest)
    return t, rest.strip()


class Runner(Machine):
    MAX_STEPS = 4000000

    def is_panic_block(self, fn, label, seen=None):
        """a block that ends in `unreachable` (possibly after a noreturn call): panic path"""
        blk = fn.blocks.get(label)
        if not blk:
            return False
        last = blk[-1]
        if last.startswith("unreachable"):
            return True
        return False

    # ---------------------------------------------------------------- integer helpers
    def binop(self, op, w, a, b):
        if isinstance(a, Ptr) or isinstance(b, Ptr):
            if isinstance(a, Ptr) and isinstance(b, Ptr) and op == "sub" and a.obj == b.obj:
                return (a.off - b.off) & mask(w)
            if isinstance(a, Ptr) and not isinstance(b, Ptr) and not is_sym(b) and op in ("add", "sub"):
                return Ptr(a.obj, a.off + (sx(b, w) if op == "add" else -sx(b, w)))
            if isinstance(a, Ptr) and not isinstance(b, Ptr) and not is_sym(b) and op == "and" and a.obj != "abs":
                return (a.off & b)  # alignment tests on object-relative offsets (objects are 16-byte aligned)
            raise Unsupported("pointer arithmetic %s" % op)
        if not is_sym(a) and not is_sym(b):
            m = mask(w)
            if op == "add":
                return (a + b) & m
            if op == "sub":
                return (a - b) & m
            if op == "mul":
                return (a * b) & m
            if op == "and":
                return a & b
            if op == "or":
                return a | b
            if op == "xor":
                return a ^ b
            if op == "shl":
                return (a << b) & m if b < w else 0
            if op == "lshr":
                return (a >> b) if b < w else 0
            if op == "ashr":
                return (sx(a, w) >> min(b, w - 1)) & m
            if op == "udiv":
                return a // b
            if op == "urem":
                return a % b
            if op == "sdiv":
                q = abs(sx(a, w)) // abs(sx(b, w))
                return (q if (sx(a, w) < 0) == (sx(b, w) < 0) else -q) & m
            if op == "srem":
                r = abs(sx(a, w)) % abs(sx(b, w))
                return (r if sx(a, w) >= 0 else -r) & m
            raise Unsupported("binop " + op)
        # cheap algebraic shortcuts keep terms small
        if not is_sym(b):
            if op in ("add", "sub", "or", "xor", "shl", "lshr", "ashr") and b == 0:
                return a
            if op == "and" and b == 0:
                return 0
            if op == "and" and b == mask(w):
                return a
            if op == "mul" and b == 0:
                return 0
            if op == "mul" and b == 1:
                return a
        if not is_sym(a):
            if op in ("add", "or", "xor") and a == 0:
                return b
            if op in ("and", "mul", "shl", "lshr", "ashr") and a == 0:
                return 0
        A, B = tosym(a, w), tosym(b, w)
        if op == "add":
            return A + B
        if op == "sub":
            return A - B
        if op == "mul":
            return A * B
        if op == "and":
            return A & B
        if op == "or":
            return A | B
        if op == "xor":
            return A ^ B
        if op == "shl":
            return A << B
        if op == "lshr":
            return z3.LShR(A, B)
        if op == "ashr":
            return A >> B
        if op == "udiv":
            return z3.UDiv(A, B)
        if op == "urem":
            return z3.URem(A, B)
        if op == "sdiv":
            return A / B
        if op == "srem":
            return z3.SRem(A, B)
        raise Unsupported("binop " + op)

    def icmp(self, pred, w, a, b):
        if isinstance(a, Ptr) or isinstance(b, Ptr):
            if isinstance(a, Ptr) and isinstance(b, Ptr):
                eq = a.obj == b.obj and a.off == b.off
                if pred == "eq":
                    return int(eq)
                if pred == "ne":
                    return int(not eq)
                if a.obj == b.obj:
                    a, b = a.off, b.off
                else:
                    raise Unsupported("ordering comparison of unrelated pointers")
            else:
                raise Unsupported("pointer/int comparison")
        if not is_sym(a) and not is_sym(b):
            sa, sb = sx(a, w), sx(b, w)
            return int({"eq": a == b, "ne": a != b, "ult": a < b, "ule": a <= b, "ugt": a > b, "uge": a >= b,
                        "slt": sa < sb, "sle": sa <= sb, "sgt": sa > sb, "sge": sa >= sb}[pred])
        A, B = tosym(a, w), tosym(b, w)
        c = {"eq": A == B, "ne": A != B, "ult": z3.ULT(A, B), "ule": z3.ULE(A, B), "ugt": z3.UGT(A, B),
             "uge": z3.UGE(A, B), "slt": A < B, "sle": A <= B, "sgt": A > B, "sge": A >= B}[pred]
        return z3.If(c, z3.BitVecVal(1, 1), z3.BitVecVal(0, 1))

    def select(self, c, a, b, w):
        if not is_sym(c):
            return a if c & 1 else b
        if isinstance(a, Ptr) or isinstance(b, Ptr):
            if isinstance(a, Ptr) and isinstance(b, Ptr) and a.obj == b.obj and a.off == b.off:
                return a
            raise Unsupported("select between different pointers on a symbolic condition")
        if isinstance(a, list):
            return [self.select(c, x, y, w) for x, y in zip(a, b)]
        return z3.If(c == 1, tosym(a, w), tosym(b, w))

    def cast(self, op, v, fw, tw):
        if op in ("bitcast", "freeze"):
            return v
        if isinstance(v, Ptr):
            if op == "ptrtoint":
                return v  # keep provenance; arithmetic on it is unsupported
            raise Unsupported("cast %s of pointer" % op)
        if not is_sym(v):
            if op == "zext":
                return v & mask(fw)
            if op == "sext":
                return sx(v, fw) & mask(tw)
            if op == "trunc":
                return v & mask(tw)
            if op == "inttoptr":
                return Ptr("abs", v)
            raise Unsupported("cast " + op)
        if op == "zext":
            return z3.ZeroExt(tw - fw, v)
        if op == "sext":
            return z3.SignExt(tw - fw, v)
        if op == "trunc":
            return z3.Extract(tw - 1, 0, v)
        raise Unsupported("cast %s (symbolic)" % op)

    # ---------------------------------------------------------------- intrinsics
    def intrinsic(self, name, args, rett, where):
        vals = [v for _, v in args]
        tys = [t for t, _ in args]
        base = name.split(".")
        if name.startswith("llvm.lifetime") or name.startswith("llvm.dbg") or name.startswith("llvm.experimental.noalias") \
                or name.startswith("llvm.assume") or name.startswith("llvm.donothing") or name.startswith("llvm.prefetch"):
            return None
        if name.startswith("llvm.expect"):
            return vals[0]
        if name.startswith("llvm.fshl") or name.startswith("llvm.fshr"):
            w = self.width(tys[0])
            a, b, s = vals
            left = name.startswith("llvm.fshl")
            if is_sym(s):
                s = self.binop("urem", w, s, w) if False else s
                S = tosym(s, w) & (w - 1)
                cat = z3.Concat(tosym(a, w), tosym(b, w))
                S2 = z3.ZeroExt(w, S)
                if left:
                    return z3.Extract(2 * w - 1, w, cat << S2)
                return z3.Extract(w - 1, 0, z3.LShR(cat, S2))
            s %= w
            if s == 0:
                return a if left else b
            if left:
                return self.binop("or", w, self.binop("shl", w, a, s), self.binop("lshr", w, b, w - s))
            return self.binop("or", w, self.binop("lshr", w, b, s), self.binop("shl", w, a, w - s))
        if name.startswith("llvm.ctlz") or name.startswith("llvm.cttz"):
            w = self.width(tys[0])
            v = vals[0]
            lead = name.startswith("llvm.ctlz")
            if not is_sym(v):
                if v == 0:
                    return w
                return (w - v.bit_length()) if lead else ((v & -v).bit_length() - 1)
            res = z3.BitVecVal(w, w)
            rng = range(w) if lead else range(w - 1, -1, -1)
            for i in rng:
                cnt = (w - 1 - i) if lead else i
                res = z3.If(z3.Extract(i, i, v) == 1, z3.BitVecVal(cnt, w), res)
            return res
        if name.startswith("llvm.ctpop"):
            w = self.width(tys[0])
            v = vals[0]
            if not is_sym(v):
                return bin(v).count("1")
            acc = z3.BitVecVal(0, w)
            for i in range(w):
                acc = acc + z3.ZeroExt(w - 1, z3.Extract(i, i, v))
            return acc
        if name.startswith("llvm.bswap"):
            w = self.width(tys[0])
            v = vals[0]
            n = w // 8
            if not is_sym(v):
                return int.from_bytes(v.to_bytes(n, "little"), "big")
            return z3.Concat(*[z3.Extract(8 * k + 7, 8 * k, v) for k in range(n)])
        m = re.match(r"llvm\.(umin|umax|smin|smax)\.", name)
        if m:
            w = self.width(tys[0])
            a, b = vals
            pred = {"umin": "ult", "umax": "ugt", "smin": "slt", "smax": "sgt"}[m.group(1)]
            return self.select(self.icmp(pred, w, a, b), a, b, w)
        if name.startswith("llvm.abs"):
            w = self.width(tys[0])
            a = vals[0]
            return self.select(self.icmp("slt", w, a, 0), self.binop("sub", w, 0, a), a, w)
        m = re.match(r"llvm\.(u|s)(add|sub|mul)\.with\.overflow\.", name)
        if m:
            w = self.width(tys[0])
            a, b = vals
            signed, op = m.group(1) == "s", m.group(2)
            r = self.binop(op, w, a, b)
            ext = "sext" if signed else "zext"
            wa, wb = self.cast(ext, a, w, 2 * w), self.cast(ext, b, w, 2 * w)
            wide = self.binop(op, 2 * w, wa, wb)
            back = self.cast(ext, r, w, 2 * w)
            return [r, self.icmp("ne", 2 * w, wide, back)]
        m = re.match(r"llvm\.(u|s)(add|sub)\.sat\.", name)
        if m:
            w = self.width(tys[0])
            a, b = vals
            if m.group(1) == "u":
                r = self.binop(m.group(2), w, a, b)
                if m.group(2) == "add":
                    return self.select(self.icmp("ult", w, r, a), mask(w), r, w)
                return self.select(self.icmp("ult", w, a, b), 0, r, w)
            raise Unsupported(name)
        if name.startswith("llvm.memcpy") or name.startswith("llvm.memmove"):
            dst, src, n = vals[0], vals[1], vals[2]
            n = self.concretize(n, "memcpy-length", where) if is_sym(n) else n
            # read everything first (memmove semantics), in 8-byte chunks where alignment allows
            chunks, k = [], 0
            while k < n:
                w = 8 if (k + 8 <= n and (src.off + k) % 8 == 0 and (dst.off + k) % 8 == 0) else 1
                chunks.append((k, w, self.load(Ptr(src.obj, src.off + k), w)))
                k += w
            for k, w, v in chunks:
                self.store(Ptr(dst.obj, dst.off + k), v, w)
            return None
        if name.startswith("llvm.memset"):
            dst, b, n = vals[0], vals[1], vals[2]
            n = self.concretize(n, "memset-length", where) if is_sym(n) else n
            for k in range(n):
                self.store(Ptr(dst.obj, dst.off + k), b, 1)
            return None
        if name.startswith("llvm.vector.reduce.or") or name.startswith("llvm.vector.reduce.and") \
                or name.startswith("llvm.vector.reduce.add") or name.startswith("llvm.vector.reduce.xor"):
            op = name.split(".")[3]
            et = re.match(r"<(\d+) x (.*)>$", tys[0]).group(2)
            w = self.width(et)
            acc = vals[0][0]
            for x in vals[0][1:]:
                acc = self.binop(op, w, acc, x)
            return acc
        raise Unsupported("intrinsic %s" % name)

    # ---------------------------------------------------------------- vectors
    def vec_map(self, t, f, *vs):
        m = re.match(r"<(\d+) x (.*)>$", t)
        n, et = int(m.group(1)), m.group(2)
        return [f(et, *[v[i] for v in vs]) for i in range(n)]

    # ---------------------------------------------------------------- calls
    def call(self, env, text, where):
        # text: 'call <attrs> <retty> @name(args...) #N'
        m = re.match(r'^(?:tail |musttail |notail )?call (.*?)(@"[^"]+"|@[\w.$]+)\((.*)\)[^)]*$', text)
        if not m:
            raise Unsupported("call syntax: %s" % text[:80])
        pre, callee, argstr = m.group(1), m.group(2), m.group(3)
        name = callee[1:].strip('"')
        pre = _FLAGS.sub("", pre)
        pre = re.sub(r"range\([^)]*\)", "", pre).strip()
        rett = first_type(pre) if pre else "void"
        args = []
        for a in split_top(argstr):
            if a.startswith("metadata"):
                args.append(("metadata", None))
                continue
            t, tok = _clean_call_arg(a)
            args.append((t, self.operand(env, t, tok)))
        if name.startswith("llvm."):
            return self.intrinsic(name, args, rett, where)
        if name in ("malloc", "calloc"):
            n = args[0][1] if name == "malloc" else self.binop("mul", 64, args[0][1], args[1][1])
            n = self.concretize(n, "alloc-size", where) if is_sym(n) else n
            return Ptr(self.new_obj(n, "heap"), 0)
        if name == "free":
            return None
        if name == "realloc":
            old, nsz = args[0][1], args[1][1]
            nsz = self.concretize(nsz, "alloc-size", where) if is_sym(nsz) else nsz
            p = Ptr(self.new_obj(nsz, "heap"), 0)
            if isinstance(old, Ptr) and old.obj in self.mem:
                for k in range(min(self.mem[old.obj]["size"], nsz)):
                    self.store(Ptr(p.obj, k), self.load(Ptr(old.obj, old.off + k), 1), 1)
            return p
        if name in ("__rust_alloc", "__rust_alloc_zeroed", "__rustc::__rust_alloc", "__rustc::__rust_alloc_zeroed") \
                or name.endswith("__rust_alloc") or name.endswith("__rust_alloc_zeroed"):
            n = args[0][1]
            n = self.concretize(n, "alloc-size", where) if is_sym(n) else n
            return Ptr(self.new_obj(n, "heap"), 0)
        if name.endswith("__rust_dealloc"):
            return None
        if name.endswith("__rust_no_alloc_shim_is_unstable_v2") or name.endswith("__rust_no_alloc_shim_is_unstable"):
            return None
        if name.endswith("__rust_realloc"):
            old, osz, _, nsz = [a[1] for a in args]
            nsz = self.concretize(nsz, "alloc-size", where) if is_sym(nsz) else nsz
            osz = self.concretize(osz, "alloc-size", where) if is_sym(osz) else osz
            p = Ptr(self.new_obj(nsz, "heap"), 0)
            for k in range(min(osz, nsz)):
                self.store(Ptr(p.obj, k), self.load(Ptr(old.obj, old.off + k), 1), 1)
            return p
        fn = self.m.funcs.get(name)
        if fn is None:
            if name in ("__udivti3", "__umodti3", "__divti3", "__modti3"):
                a, b = args[0][1], args[1][1]
                self.concretize(b, "division-operand", where)
                self.concretize(a, "division-operand", where)
                return self.binop("udiv" if "div" in name else "urem", 128, a, b)
            raise Unsupported("call to external function %s" % name)
        self.stats["calls_inlined"] += 1
        if self.depth > 40:
            raise Unsupported("call depth")
        self.depth += 1
        try:
            return self.run_function(fn, [v for _, v in args])
        finally:
            self.depth -= 1

    # ---------------------------------------------------------------- main loop
    def run_function(self, fn, argvals):
        env = {}
        for (t, n), v in zip(fn.params, argvals):
            if n:
                env[n] = v
        label = fn.order[0]
        prev = None
        while True:
            blk = fn.blocks[label]
            # phis first (parallel assignment)
            phis = {}
            i = 0
            while i < len(blk) and " = phi " in blk[i]:
                line = strip_meta(blk[i])
                m = _ASSIGN.match(line)
                body = m.group(2)[4:].strip()
                t = first_type(body)
                for inc in re.findall(r"\[\s*(.*?),\s*(%\"[^\"]+\"|%[\w.$-]+)\s*\]", body[len(t):]):
                    if inc[1][1:].strip('"') == prev:
                        phis[m.group(1)] = self.operand(env, t, inc[0])
                        break
                else:
                    raise Unsupported("phi without incoming for %s in %s" % (prev, label))
                i += 1
            env.update(phis)
            for raw in blk[i:]:
                self.stats["instructions"] += 1
                if self.stats["instructions"] > self.MAX_STEPS:
                    raise Unsupported("step limit")
                where = (fn.name, dbg_of(raw), label, strip_meta(raw)[:160])
                line = strip_meta(raw)
                m = _ASSIGN.match(line)
                dst, body = (m.group(1), m.group(2)) if m else (None, line)
                r = self.exec_one(env, fn, body, where, label)
                if isinstance(r, tuple) and r and r[0] == "jump":
                    prev, label = label, r[1]
                    break
                if isinstance(r, tuple) and r and r[0] == "ret":
                    return r[1]
                if dst is not None:
                    env[dst] = r
            else:
                raise Unsupported("fell off block %s" % label)

    def exec_one(self, env, fn, body, where, label):
        op = body.split(None, 1)[0]
        if op in ("add", "sub", "mul", "and", "or", "xor", "shl", "lshr", "ashr", "udiv", "urem", "sdiv", "srem"):
            rest = _FLAGS.sub("", body[len(op):]).strip()
            t = first_type(rest)
            a, b = split_top(rest[len(t):])
            if t.startswith("<"):
                va, vb = self.operand(env, t, a), self.operand(env, t, b)
                return self.vec_map(t, lambda et, x, y: self.binop(op, self.width(et), x, y), va, vb)
            w = self.width(t)
            va, vb = self.operand(env, t, a), self.operand(env, t, b)
            if op in ("udiv", "urem", "sdiv", "srem"):
                if is_sym(vb):
                    vb = self.concretize(vb, "division-operand", where)
                    va = self.concretize(va, "division-operand", where) if is_sym(va) else va
                # division by a constant is strength-reduced by the back end: not a leak point (assumption)
            return self.binop(op, w, va, vb)
        if op == "icmp":
            rest = _FLAGS.sub("", body[4:]).strip()
            pred, rest = rest.split(None, 1)
            t = first_type(rest)
            a, b = split_top(rest[len(t):])
            va, vb = self.operand(env, t, a), self.operand(env, t, b)
            if t.startswith("<"):
                return self.vec_map(t, lambda et, x, y: self.icmp(pred, self.width(et), x, y), va, vb)
            return self.icmp(pred, self.width(t), va, vb)
        if op == "select":
            parts = split_top(body[6:])
            ct = first_type(parts[0])
            cv = parts[0][len(ct):].strip()
            t = first_type(parts[1])
            a = self.operand(env, t, parts[1][len(t):])
            b = self.operand(env, t, parts[2][len(first_type(parts[2])):])
            c = self.operand(env, ct, cv)
            if ct.startswith("<"):
                et = re.match(r"<(\d+) x (.*)>$", t).group(2)
                return [self.select(ci, x, y, self.width(et)) for ci, x, y in zip(c, a, b)]
            if t.startswith("<") or t.startswith("{"):
                return self.select(c, a, b, 64)
            return self.select(c, a, b, self.width(t) if t != "ptr" else 64)
        if op in ("zext", "sext", "trunc", "bitcast", "ptrtoint", "inttoptr", "freeze"):
            rest = _FLAGS.sub("", body[len(op):]).strip()
            if op == "freeze":
                t = first_type(rest)
                return self.operand(env, t, rest[len(t):])
            m = re.match(r"(.*) to (.*)$", rest)
            src, tt = m.group(1), m.group(2).strip()
            ft = first_type(src)
            v = self.operand(env, ft, src[len(ft):])
            if ft.startswith("<"):
                fe = re.match(r"<(\d+) x (.*)>$", ft).group(2)
                te = re.match(r"<(\d+) x (.*)>$", tt).group(2)
                if op == "bitcast" and self.width(fe) != self.width(te):
                    raise Unsupported("vector bitcast changing lane width")
                return [self.cast(op, x, self.width(fe), self.width(te)) for x in v]
            if op == "bitcast" and (tt.startswith("<") or ft.startswith("<")):
                raise Unsupported("scalar<->vector bitcast")
            return self.cast(op, v, self.width(ft), self.width(tt))
        if op == "getelementptr":
            rest = _FLAGS.sub("", body[len(op):]).strip()
            rest = re.sub(r"^(inrange\([^)]*\)\s*)", "", rest)
            parts = split_top(rest)
            return self.gep(env, parts[0], parts[1:], where)
        if op == "load":
            rest = _FLAGS.sub("", body[4:]).strip()
            rest = re.sub(r"^atomic\s+", "", rest)
            parts = split_top(rest)
            t = parts[0]
            p = self.operand(env, "ptr", parts[1].split(None, 1)[1])
            return self.load_typed(p, t)
        if op == "store":
            rest = _FLAGS.sub("", body[5:]).strip()
            rest = re.sub(r"^atomic\s+", "", rest)
            parts = split_top(rest)
            t = first_type(parts[0])
            v = self.operand(env, t, parts[0][len(t):])
            p = self.operand(env, "ptr", parts[1].split(None, 1)[1])
            self.store_typed(p, t, v)
            return None
        if op == "alloca":
            rest = body[6:].strip()
            t = split_top(rest)[0]
            return Ptr(self.new_obj(self.sizeof(t), "stack"), 0)
        if op == "br":
            rest = body[2:].strip()
            if rest.startswith("label"):
                return ("jump", rest.split("%", 1)[1].strip().strip('"'))
            m = re.match(r'i1 (.*?), label %("[^"]+"|[\w.$-]+), label %("[^"]+"|[\w.$-]+)', rest)
            c = self.operand(env, "i1", m.group(1))
            t1, t2 = m.group(2).strip('"'), m.group(3).strip('"')
            if is_sym(c):
                p1, p2 = self.is_panic_block(fn, t1), self.is_panic_block(fn, t2)
                if p1 != p2:
                    # panic guard: assume the non-panicking side (C01 speaks about non-panicking runs)
                    self.stats["guards_assumed"] += 1
                    self.guard_sites.append(where)
                    self.pre.append(c == (0 if p1 else 1))
                    return ("jump", t2 if p1 else t1)
                c = self.concretize(c, "branch", where)
            return ("jump", t1 if c & 1 else t2)
        if op == "switch":
            m = re.match(r'switch (\S+) (.*?), label %("[^"]+"|[\w.$-]+) \[(.*)\]', body)
            t = m.group(1)
            v = self.operand(env, t, m.group(2))
            if is_sym(v):
                v = self.concretize(v, "switch", where)
            for cm in re.finditer(r'\S+ (-?\d+), label %("[^"]+"|[\w.$-]+)', m.group(4)):
                if int(cm.group(1)) & mask(self.width(t)) == v:
                    return ("jump", cm.group(2).strip('"'))
            return ("jump", m.group(3).strip('"'))
        if op == "ret":
            rest = body[3:].strip()
            if rest == "void":
                return ("ret", None)
            t = first_type(rest)
            return ("ret", self.operand(env, t, rest[len(t):]))
        if op in ("call", "tail", "musttail", "notail"):
            return self.call(env, body, where)
        if op == "unreachable":
            raise Unsupported("reached unreachable (panic path) at %s" % (where,))
        if op == "extractvalue":
            parts = split_top(body[len(op):])
            t = first_type(parts[0])
            v = self.operand(env, t, parts[0][len(t):])
            for idx in parts[1:]:
                v = v[int(idx)]
            return v
        if op == "insertvalue":
            parts = split_top(body[len(op):])
            t = first_type(parts[0])
            agg = self.operand(env, t, parts[0][len(t):])
            agg = list(agg) if isinstance(agg, list) else self.zero_agg(t)
            et = first_type(parts[1])
            val = self.operand(env, et, parts[1][len(et):])
            idxs = [int(x) for x in parts[2:]]
            cur = agg
            for ix in idxs[:-1]:
                cur[ix] = list(cur[ix])
                cur = cur[ix]
            cur[idxs[-1]] = val
            return agg
        if op == "extractelement":
            parts = split_top(body[len(op):])
            t = first_type(parts[0])
            v = self.operand(env, t, parts[0][len(t):])
            it, iv = parts[1].split(None, 1)
            ix = self.operand(env, it, iv)
            ix = self.concretize(ix, "vector-index", where) if is_sym(ix) else ix
            return v[ix]
        if op == "insertelement":
            parts = split_top(body[len(op):])
            t = first_type(parts[0])
            v = list(self.operand(env, t, parts[0][len(t):]))
            et = first_type(parts[1])
            x = self.operand(env, et, parts[1][len(et):])
            it, iv = parts[2].split(None, 1)
            ix = self.operand(env, it, iv)
            ix = self.concretize(ix, "vector-index", where) if is_sym(ix) else ix
            v[ix] = x
            return v
        if op == "shufflevector":
            parts = split_top(body[len(op):])
            t = first_type(parts[0])
            a = self.operand(env, t, parts[0][len(t):])
            b = self.operand(env, t, parts[1][len(first_type(parts[1])):])
            mt = first_type(parts[2])
            mtok = parts[2][len(mt):].strip()
            n = int(re.match(r"<(\d+) x", mt).group(1))
            if mtok in ("zeroinitializer",):
                idxs = [0] * n
            elif mtok in ("poison", "undef"):
                idxs = [0] * n
            else:
                idxs = []
                for x in split_top(mtok[1:-1]):
                    tok = x.split(None, 1)[1]
                    idxs.append(0 if tok in ("poison", "undef") else int(tok))
            both = list(a) + list(b)
            return [both[k] for k in idxs]
        if op == "fence":
            return None
        raise Unsupported("instruction %s" % body[:70])

    def load_typed(self, p, t):
        t = t.strip()
        if t.startswith("<") and not t.startswith("<{"):
            m = re.match(r"<(\d+) x (.*)>$", t)
            n, et = int(m.group(1)), m.group(2)
            es = self.sizeof(et)
            return [self.load_typed(Ptr(p.obj, p.off + k * es), et) for k in range(n)]
        if t.startswith("{") or t.startswith("[") or t.startswith("%"):
            raise Unsupported("aggregate load %s" % t)
        if t == "ptr":
            v = self.load(p, 8)
            if isinstance(v, Ptr):
                return v
            if not is_sym(v):
                return Ptr("abs", v)
            raise Unsupported("load of symbolic pointer")
        w = self.width(t)
        v = self.load(p, (w + 7) // 8)
        if isinstance(v, Ptr):
            return v
        if w % 8:
            v = self.cast("trunc", v, ((w + 7) // 8) * 8, w)
        return v

    def store_typed(self, p, t, v):
        t = t.strip()
        if t.startswith("<") and not t.startswith("<{"):
            m = re.match(r"<(\d+) x (.*)>$", t)
            n, et = int(m.group(1)), m.group(2)
            es = self.sizeof(et)
            for k in range(n):
                self.store_typed(Ptr(p.obj, p.off + k * es), et, v[k])
            return
        if t.startswith("{") or t.startswith("[") or t.startswith("%"):
            raise Unsupported("aggregate store %s" % t)
        if t == "ptr":
            self.store(p, v, 8)
            return
        w = self.width(t)
        if w % 8 and not isinstance(v, Ptr):
            v = self.cast("zext", v, w, ((w + 7) // 8) * 8)
        self.store(p, v, (w + 7) // 8)
