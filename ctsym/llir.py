"""Minimal parser for the textual LLVM IR that rustc emits (functions, blocks, named types, globals)."""
import re


class Func:
    def __init__(self, name, params, ret):
        self.name = name
        self.params = params  # list of (type, name)
        self.ret = ret
        self.blocks = {}  # label -> list of instruction strings
        self.order = []


_DEF = re.compile(r'^define\s+(.*?)@("[^"]+"|[\w.$]+)\((.*)\)\s*[^(]*\{\s*$')
_LABEL = re.compile(r'^("[^"]+"|[\w.$-]+):')
_TYPEDEF = re.compile(r'^(%"[^"]+"|%[\w.$]+)\s*=\s*type\s+(.*)$')
_GLOBAL = re.compile(r'^(@"[^"]+"|@[\w.$]+)\s*=\s*(.*)$')


def split_top(s, sep=","):
    """split on sep at nesting depth 0 of (), [], {}, <>"""
    out, depth, cur, inq = [], 0, [], False
    i = 0
    while i < len(s):
        c = s[i]
        if c == '"':
            inq = not inq
            cur.append(c)
        elif inq:
            cur.append(c)
        elif c in "([{<":
            depth += 1
            cur.append(c)
        elif c in ")]}>":
            depth -= 1
            cur.append(c)
        elif c == sep and depth == 0:
            out.append("".join(cur).strip())
            cur = []
        else:
            cur.append(c)
        i += 1
    last = "".join(cur).strip()
    if last:
        out.append(last)
    return out


def strip_meta(line):
    """remove trailing ', !dbg !N' style metadata and comments"""
    # cut at first ', !' at depth 0
    depth, inq = 0, False
    for i, c in enumerate(line):
        if c == '"':
            inq = not inq
        elif inq:
            continue
        elif c in "([{":
            depth += 1
        elif c in ")]}":
            depth -= 1
        elif c == "," and depth == 0 and line[i:i + 3] == ", !":
            return line[:i]
    return line


def dbg_of(line):
    m = re.search(r"!dbg !(\d+)", line)
    return int(m.group(1)) if m else None


class Module:
    def __init__(self, path):
        self.funcs = {}
        self.types = {}
        self.globals = {}
        self.meta = {}
        self.aliases = {}
        self._parse(path)
        for a, tgt in self.aliases.items():
            if tgt in self.funcs and a not in self.funcs:
                self.funcs[a] = self.funcs[tgt]

    def _parse(self, path):
        cur = None
        label = None
        pending_switch = None
        with open(path) as fh:
            for raw in fh:
                line = raw.rstrip("\n")
                if cur is None:
                    if line.startswith("define "):
                        m = _DEF.match(line)
                        if not m:
                            continue
                        name = m.group(2).strip('"')
                        params = []
                        for p in split_top(m.group(3)):
                            toks = p.split()
                            pname = toks[-1] if toks[-1].startswith("%") else None
                            ptype = _first_type(p)
                            params.append((ptype, pname))
                        cur = Func(name, params, m.group(1))
                        label = None
                        continue
                    m = _TYPEDEF.match(line)
                    if m:
                        self.types[m.group(1)] = m.group(2).strip()
                        continue
                    if line.startswith("@"):
                        ma = re.match(r'^@("[^"]+"|[\w.$]+)\s*=.*\balias\b.*,\s*ptr @("[^"]+"|[\w.$]+)\s*$', line)
                        if ma:
                            self.aliases[ma.group(1).strip('"')] = ma.group(2).strip('"')
                            continue
                        m = _GLOBAL.match(line)
                        if m:
                            self.globals[m.group(1)] = m.group(2)
                        continue
                    if line.startswith("!") and " = " in line:
                        k, v = line.split(" = ", 1)
                        self.meta[k.strip()] = v
                    continue
                # inside a function
                if line == "}":
                    self.funcs[cur.name] = cur
                    cur = None
                    continue
                s = line.strip()
                if not s or s.startswith(";"):
                    continue
                if pending_switch is not None:
                    pending_switch.append(s)
                    if s.startswith("]"):
                        cur.blocks[label].append(" ".join(pending_switch))
                        pending_switch = None
                    continue
                m = _LABEL.match(line)
                if m and not line.startswith(" "):
                    label = m.group(1).strip('"')
                    cur.blocks[label] = []
                    cur.order.append(label)
                    continue
                if label is None:
                    label = "%entry0"
                    cur.blocks[label] = []
                    cur.order.append(label)
                if s.startswith("switch ") and s.endswith("["):
                    pending_switch = [s]
                    continue
                cur.blocks[label].append(s)

    def dbg_location(self, n):
        """-> 'file:line (function)' best effort from !DILocation / !DISubprogram metadata"""
        v = self.meta.get("!%d" % n)
        if not v:
            return None
        m = re.search(r"line: (\d+)", v)
        line = m.group(1) if m else "?"
        sc = re.search(r"scope: !(\d+)", v)
        fn, file = None, None
        seen = 0
        while sc and seen < 20:
            sv = self.meta.get("!%s" % sc.group(1), "")
            if fn is None:
                mm = re.search(r'DISubprogram\(name: "([^"]+)"', sv)
                if mm:
                    fn = mm.group(1)
            mf = re.search(r"file: !(\d+)", sv)
            if mf and file is None:
                fv = self.meta.get("!%s" % mf.group(1), "")
                mm = re.search(r'filename: "([^"]+)"', fv)
                if mm:
                    file = mm.group(1)
            if fn and file:
                break
            sc = re.search(r"scope: !(\d+)", sv)
            seen += 1
        return "%s:%s (%s)" % (file or "?", line, fn or "?")


_TYPE_START = re.compile(r'^(i\d+|ptr|void|float|double|half|%"[^"]+"|%[\w.$]+)')


def _first_type(s):
    """parse the leading type of a string; returns the type text"""
    s = s.strip()
    if s.startswith(("[", "<", "{")):
        close = {"[": "]", "<": ">", "{": "}"}[s[0]]
        depth = 0
        for i, c in enumerate(s):
            if c == s[0]:
                depth += 1
            elif c == close:
                depth -= 1
                if depth == 0:
                    return s[:i + 1]
        return s
    m = _TYPE_START.match(s)
    return m.group(1) if m else s.split()[0]


def first_type(s):
    return _first_type(s)
