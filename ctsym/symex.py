"""Single-path relational symbolic executor for rustc's optimised LLVM IR (DESIGN.md section 2.3).

Concrete values are Python ints, symbolic ones z3 bit-vectors.  Control flow, addresses and division
operands must be secret-independent: at each such *leak point* the solver is asked whether two
assignments of the secrets (both satisfying the precondition) can make the value differ.
"""
import re
import time

import z3

from .llir import split_top, strip_meta, first_type, dbg_of


class Unsupported(Exception):
    pass


class Leak(Exception):
    def __init__(self, kind, where, expr, witness, vars=()):
        Exception.__init__(self, kind)
        self.kind, self.where, self.expr, self.witness = kind, where, expr, witness
        self.vars = set(vars)


def expr_vars(e):
    seen, out, stack = set(), set(), [e]
    while stack:
        x = stack.pop()
        if x.get_id() in seen:
            continue
        seen.add(x.get_id())
        if z3.is_const(x) and x.decl().kind() == z3.Z3_OP_UNINTERPRETED:
            out.add(str(x))
        else:
            stack.extend(x.children())
    return out


class Ptr:
    __slots__ = ("obj", "off")

    def __init__(self, obj, off):
        self.obj, self.off = obj, off

    def __repr__(self):
        return "Ptr(%s,%s)" % (self.obj, self.off)


def mask(w):
    return (1 << w) - 1


def is_sym(v):
    return isinstance(v, z3.ExprRef)


def tosym(v, w):
    return v if is_sym(v) else z3.BitVecVal(v & mask(w), w)


def sx(v, w):
    """python int of width w -> signed"""
    v &= mask(w)
    return v - (1 << w) if v >> (w - 1) else v


class Machine:
    def __init__(self, module, timeout_ms=60000):
        self.m = module
        self.mem = {}  # obj -> {'size':n, 'cells':{off:(val,nbytes)}}
        self.nobj = 0
        self.secrets = []  # z3 consts
        self.primed = []
        self.pre = []  # constraints over secrets
        self.timeout_ms = timeout_ms
        self.stats = {"queries": 0, "solver_s": 0.0, "instructions": 0, "guards_assumed": 0,
                      "leak_points_symbolic": 0, "calls_inlined": 0}
        self.guard_sites = []
        self.globals_obj = {}
        self.depth = 0
        self.on_leak = None
        self.recorded_leaks = []

    # ------------------------------------------------------------ memory
    def new_obj(self, size, name=None):
        self.nobj += 1
        oid = "%s#%d" % (name or "o", self.nobj)
        self.mem[oid] = {"size": size, "cells": {}}
        return oid

    def fresh_secret(self, name, bits):
        s = z3.BitVec(name, bits)
        self.secrets.append(s)
        self.primed.append(z3.BitVec(name + "'", bits))
        return s

    @staticmethod
    def _byte(val, k):
        if is_sym(val):
            return z3.Extract(8 * k + 7, 8 * k, val)
        return (val >> (8 * k)) & 0xff

    def _explode(self, cells, off):
        val, n = cells.pop(off)
        for k in range(n):
            cells[off + k] = (self._byte(val, k), 1)

    def store(self, p, val, nbytes):
        if not isinstance(p, Ptr):
            raise Unsupported("store through non-pointer %r" % (p,))
        o = self.mem[p.obj]
        if p.off < 0 or p.off + nbytes > o["size"]:
            raise Unsupported("store out of object bounds %r+%d (size %d)" % (p, nbytes, o["size"]))
        cells = o["cells"]
        # explode overlapping cells that are not exactly replaced
        for off in [c for c in list(cells) if c < p.off + nbytes and c + cells[c][1] > p.off]:
            if off == p.off and cells[off][1] == nbytes:
                continue
            self._explode(cells, off)
        for k in range(nbytes):
            cells.pop(p.off + k, None)
        cells[p.off] = (val, nbytes)

    def load(self, p, nbytes):
        if not isinstance(p, Ptr):
            raise Unsupported("load through non-pointer %r" % (p,))
        o = self.mem[p.obj]
        if p.off < 0 or p.off + nbytes > o["size"]:
            raise Unsupported("load out of object bounds %r+%d (size %d)" % (p, nbytes, o["size"]))
        cells = o["cells"]
        c = cells.get(p.off)
        if c and c[1] == nbytes:
            return c[0]
        bs = []
        for k in range(nbytes):
            a = p.off + k
            found = None
            if a in cells and cells[a][1] == 1:
                found = cells[a][0]
            else:
                for off, (v, n) in cells.items():
                    if off <= a < off + n:
                        found = self._byte(v, a - off)
                        break
            if found is None:
                found = 0  # uninitialised: treated as zero (alloca scratch, padding)
            bs.append(found)
        if all(not is_sym(b) for b in bs):
            r = 0
            for k, b in enumerate(bs):
                r |= b << (8 * k)
            return r
        if len(bs) == 1:
            return bs[0]
        return z3.Concat(*[tosym(b, 8) for b in reversed(bs)])

    # ------------------------------------------------------------ solver
    def _prime(self, e):
        return z3.substitute(e, *zip(self.secrets, self.primed))

    def varies(self, e):
        """2-safety query: can e differ between two admissible secrets?  -> (True, (m1,m2)) | (False, value)"""
        e = z3.simplify(e)
        if z3.is_bv_value(e):
            return False, e.as_long()
        if z3.is_true(e) or z3.is_false(e):
            return False, 1 if z3.is_true(e) else 0
        self.stats["leak_points_symbolic"] += 1
        s = z3.Solver()
        s.set("timeout", self.timeout_ms)
        for c in self.pre:
            s.add(c)
            s.add(self._prime(c))
        s.add(e != self._prime(e))
        t0 = time.time()
        r = s.check()
        self.stats["queries"] += 1
        self.stats["solver_s"] += time.time() - t0
        if r == z3.sat:
            mdl = s.model()
            w1 = {str(v): (mdl.eval(v, model_completion=True).as_long()) for v in self.secrets}
            w2 = {str(v): (mdl.eval(p, model_completion=True).as_long()) for v, p in zip(self.secrets, self.primed)}
            return True, (w1, w2)
        if r == z3.unknown:
            # fallback for 1-bit values (branch conditions): two separate satisfiability queries, one per
            # outcome, are smaller than the relational query; both satisfiable = two secrets that differ
            if z3.is_bv(e) and e.size() == 1 or z3.is_bool(e):
                models = []
                for want in (1, 0):
                    s1 = z3.Solver()
                    s1.set("timeout", self.timeout_ms)
                    for c in self.pre:
                        s1.add(c)
                    s1.add((e == want) if z3.is_bv(e) else (e if want else z3.Not(e)))
                    t0 = time.time()
                    r1 = s1.check()
                    self.stats["queries"] += 1
                    self.stats["solver_s"] += time.time() - t0
                    if r1 == z3.sat:
                        models.append(s1.model())
                    elif r1 == z3.unsat:
                        # this outcome is impossible: the value is constant
                        return False, 1 - want
                    else:
                        break
                if len(models) == 2:
                    w1 = {str(v): models[0].eval(v, model_completion=True).as_long() for v in self.secrets}
                    w2 = {str(v): models[1].eval(v, model_completion=True).as_long() for v in self.secrets}
                    return True, (w1, w2)
            raise Unsupported("solver unknown/timeout at a leak point")
        # constant: find its value
        s2 = z3.Solver()
        s2.set("timeout", self.timeout_ms)
        for c in self.pre:
            s2.add(c)
        t0 = time.time()
        r2 = s2.check()
        self.stats["queries"] += 1
        self.stats["solver_s"] += time.time() - t0
        if r2 != z3.sat:
            raise Unsupported("precondition unsatisfiable or unknown (%s)" % r2)
        v = s2.model().eval(e, model_completion=True)
        if z3.is_true(v) or z3.is_false(v):
            return False, 1 if z3.is_true(v) else 0
        return False, v.as_long()

    def concretize(self, v, kind, where):
        """leak point: value must not depend on the secrets; returns its concrete value"""
        if not is_sym(v):
            return v
        var, res = self.varies(v)
        if var:
            sv = z3.simplify(v)
            leak = Leak(kind, where, str(sv)[:400], res, expr_vars(sv))
            if self.on_leak is not None and self.on_leak(leak):
                # a recorded (known) leak: keep going on the sub-space of secrets that agree with the
                # first witness at this point, so that later leak points of the wrapper are still examined
                w1 = res[0]
                subst = [(sv, z3.BitVecVal(w1[str(sv)], sv.size())) for sv in self.secrets]
                val = z3.simplify(z3.substitute(v, *subst))
                if z3.is_true(val) or z3.is_false(val):
                    cv = 1 if z3.is_true(val) else 0
                    self.pre.append(v if cv else z3.Not(v))
                else:
                    cv = val.as_long()
                    self.pre.append(v == val)
                self.recorded_leaks.append(leak)
                return cv
            raise leak
        return res

    # ------------------------------------------------------------ types
    def sizeof(self, t):
        t = t.strip()
        if t.startswith("i") and t[1:].isdigit():
            return (int(t[1:]) + 7) // 8
        if t == "ptr":
            return 8
        if t.startswith("["):
            m = re.match(r"\[(\d+) x (.*)\]$", t)
            return int(m.group(1)) * self.sizeof(m.group(2))
        if t.startswith("<{"):
            return sum(self.sizeof(x) for x in split_top(t[2:-2]))
        if t.startswith("<"):
            m = re.match(r"<(\d+) x (.*)>$", t)
            return int(m.group(1)) * self.sizeof(m.group(2))
        if t.startswith("{"):
            offs, size, _ = self.struct_layout(t)
            return size
        if t.startswith("%"):
            return self.sizeof(self.m.types[t])
        raise Unsupported("sizeof %s" % t)

    def alignof(self, t):
        t = t.strip()
        if t.startswith("i") and t[1:].isdigit():
            return min(16, max(1, 1 << ((int(t[1:]) + 7) // 8 - 1).bit_length())) if int(t[1:]) > 8 else 1
        if t == "ptr":
            return 8
        if t.startswith("["):
            return self.alignof(re.match(r"\[(\d+) x (.*)\]$", t).group(2))
        if t.startswith("<{"):
            return 1
        if t.startswith("<"):
            return self.sizeof(t)
        if t.startswith("{"):
            return max([self.alignof(x) for x in split_top(t[1:-1].strip())] or [1])
        if t.startswith("%"):
            return self.alignof(self.m.types[t])
        return 1

    def struct_layout(self, t):
        fields = split_top(t[1:-1].strip())
        offs, off, al = [], 0, 1
        for f in fields:
            a = self.alignof(f)
            al = max(al, a)
            off = (off + a - 1) // a * a
            offs.append(off)
            off += self.sizeof(f)
        size = (off + al - 1) // al * al
        return offs, size, fields

    def width(self, t):
        t = t.strip()
        if t.startswith("i") and t[1:].isdigit():
            return int(t[1:])
        if t == "ptr":
            return 64
        raise Unsupported("width of %s" % t)

    # ------------------------------------------------------------ operands
    def operand(self, env, t, tok):
        tok = tok.strip()
        if tok.startswith("%"):
            name = tok.strip('"') if not tok.startswith('%"') else tok
            if tok not in env:
                raise Unsupported("undefined value %s" % tok)
            return env[tok]
        if tok.startswith("@"):
            return self.global_ptr(tok)
        if tok in ("true", "false"):
            return 1 if tok == "true" else 0
        if tok in ("null",):
            return Ptr("null", 0)
        if tok in ("undef", "poison", "zeroinitializer"):
            if t.startswith("<") and not t.startswith("<{"):
                n = int(re.match(r"<(\d+) x", t).group(1))
                return [0] * n
            if t.startswith("{") or t.startswith("["):
                return self.zero_agg(t)
            return 0 if t != "ptr" else Ptr("null", 0)
        if re.match(r"^-?\d+$", tok):
            return int(tok) & mask(self.width(t))
        if tok.startswith("<") and t.startswith("<"):
            m = re.match(r"<(\d+) x (.*)>$", t)
            et = m.group(2)
            return [self.operand(env, et, x.split(None, 1)[1]) for x in split_top(tok[1:-1])]
        if tok.startswith("getelementptr"):
            return self.const_gep(env, tok)
        if tok.startswith("inttoptr"):
            m = re.match(r"inttoptr \(i64 (\d+) to ptr\)", tok)
            return Ptr("abs", int(m.group(1)))
        if tok.startswith("splat"):
            m = re.match(r"splat \((\S+) (-?\d+)\)", tok)
            n = int(re.match(r"<(\d+) x", t).group(1))
            return [int(m.group(2)) & mask(self.width(m.group(1)))] * n
        raise Unsupported("operand %r of type %s" % (tok, t))

    def zero_agg(self, t):
        if t.startswith("{"):
            return [self.zero_agg(f) if f.strip()[0] in "{[" else 0 for f in split_top(t[1:-1].strip())]
        m = re.match(r"\[(\d+) x (.*)\]$", t)
        return [self.zero_agg(m.group(2)) if m.group(2).strip()[0] in "{[" else 0 for _ in range(int(m.group(1)))]

    def const_gep(self, env, tok):
        m = re.match(r"getelementptr (?:inbounds |nuw |nusw )*\((.*)\)$", tok)
        parts = split_top(m.group(1))
        return self.gep(env, parts[0], parts[1:], "const-gep")

    def global_ptr(self, g):
        if g in self.globals_obj:
            return Ptr(self.globals_obj[g], 0)
        init = self.m.globals.get(g)
        if init is None:
            if g.lstrip("@").strip('"') in self.m.funcs:
                return Ptr("fn:" + g, 0)
            raise Unsupported("unknown global %s" % g)
        # parse '<linkage...> constant|global <type> <init>, align N'
        m = re.search(r"\b(constant|global)\s+(.*)$", init)
        rest = m.group(2)
        t = first_type(rest)
        val = strip_meta(rest[len(t):].strip())
        val = re.sub(r",\s*align \d+.*$", "", val).strip()
        size = self.sizeof(t)
        oid = self.new_obj(size, "g")
        self.globals_obj[g] = oid
        self.init_const(Ptr(oid, 0), t, val)
        return Ptr(oid, 0)

    def init_const(self, p, t, val):
        t = t.strip()
        if val in ("zeroinitializer", "undef", "poison"):
            return
        if t.startswith("<{") or t.startswith("{"):
            packed = t.startswith("<{")
            inner = t[2:-2] if packed else t[1:-1]
            fields = split_top(inner.strip())
            vals = split_top(val[2:-2] if val.startswith("<{") else val[1:-1])
            off = 0
            for f, v in zip(fields, vals):
                if not packed:
                    a = self.alignof(f)
                    off = (off + a - 1) // a * a
                vt = first_type(v)
                self.init_const(Ptr(p.obj, p.off + off), f, v[len(vt):].strip())
                off += self.sizeof(f)
            return
        if t.startswith("["):
            m = re.match(r"\[(\d+) x (.*)\]$", t)
            n, et = int(m.group(1)), m.group(2)
            es = self.sizeof(et)
            if val.startswith('c"'):
                bs = _cstring(val[2:-1])
                for k, b in enumerate(bs):
                    self.store(Ptr(p.obj, p.off + k), b, 1)
                return
            vals = split_top(val[1:-1])
            for k, v in enumerate(vals):
                vt = first_type(v)
                self.init_const(Ptr(p.obj, p.off + k * es), et, v[len(vt):].strip())
            return
        if t == "ptr":
            try:
                self.store(p, self.operand({}, "ptr", val), 8)
            except Unsupported:
                self.store(p, Ptr("opaque", 0), 8)
            return
        if t.startswith("i"):
            self.store(p, int(val) & mask(self.width(t)), self.sizeof(t))
            return
        raise Unsupported("const init %s %s" % (t, val[:40]))

    # ------------------------------------------------------------ gep
    def gep(self, env, basety, rest, where):
        # rest: ['ptr %p', 'i64 8', ...]
        ptok = rest[0]
        p = self.operand(env, "ptr", ptok.split(None, 1)[1])
        if not isinstance(p, Ptr):
            raise Unsupported("gep on non-pointer")
        off = p.off
        t = basety.strip()
        first = True
        for idx in rest[1:]:
            it, iv = idx.split(None, 1)
            iv = iv.strip()
            v = self.operand(env, it, iv)
            if is_sym(v):
                v = self.concretize(v, "address", where)
            v = sx(v, self.width(it))
            if first:
                off += v * self.sizeof(t)
                first = False
                continue
            while t.startswith("%"):
                t = self.m.types[t]
            if t.startswith("["):
                et = re.match(r"\[(\d+) x (.*)\]$", t).group(2)
                off += v * self.sizeof(et)
                t = et
            elif t.startswith("{"):
                offs, _, fields = self.struct_layout(t)
                off += offs[v]
                t = fields[v]
            elif t.startswith("<"):
                et = re.match(r"<(\d+) x (.*)>$", t).group(2)
                off += v * self.sizeof(et)
                t = et
            else:
                raise Unsupported("gep into %s" % t)
        return Ptr(p.obj, off)


def _cstring(s):
    out, i = [], 0
    while i < len(s):
        if s[i] == "\\":
            out.append(int(s[i + 1:i + 3], 16))
            i += 3
        else:
            out.append(ord(s[i]))
            i += 1
    return out
