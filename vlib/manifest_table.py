NOTE_K = ("Trusted: rustc + Kani 0.68 MIR->goto translation and its std models, CBMC 6.11 + CaDiCaL, the short reference "
          "model inside each harness, and (k8 profile) the word-narrowing script. Bounded: limb counts, word width and "
          "input masks are those printed per harness in the evidence; nothing outside them is claimed.")

CHECKS = {}
NOT_APPLICABLE = {}


def claim(pid, text, technique, ref, note=NOTE_K, category="model_checking", engine="kani"):
    CHECKS[pid] = dict(text=text, technique=technique, ref=ref, note=note, category=category, engine=engine)


claim("C04",
      "Bounded model checking of the real add/sub/neg code at the real 64-bit word width: for the listed limb counts every "
      "value of every operand (and every carry/borrow-in word) is covered by one SAT query per harness against a u128 / "
      "ripple-carry reference; unwinding assertions on. Limb counts above those listed are outside the claim.",
      "Kani/CBMC bounded model checking, full-width symbolic operands, u128/ripple reference oracle, cover-based vacuity witnesses, native replay",
      "DESIGN.md section 4 C04")
