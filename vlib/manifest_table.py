NOTE_K = ("Trusted: rustc + Kani 0.68 MIR->goto translation and its std models, CBMC 6.11 + CaDiCaL, the short reference "
          "model inside each harness, and (k8 profile) the word-narrowing script vlib/narrow.py. Bounded: limb counts, word "
          "width and input masks are those printed per harness in the evidence (samples[].bound); nothing outside them is "
          "claimed. Harness-local assumes and stubs are listed in the evidence.")

CHECKS = {}
NOT_APPLICABLE = {}


def claim(pid, text, technique, ref, note=NOTE_K, category="model_checking", engine="kani"):
    CHECKS[pid] = dict(text=text, technique=technique, ref=ref, note=note, category=category, engine=engine)


K64 = ("Bounded model checking (Kani/CBMC, SAT) of the real code at the real 64-bit word width: one solver query per harness "
       "covers every value of every symbolic operand for the listed limb counts; unwinding assertions on; cover-based vacuity "
       "witnesses; counterexamples are replayed natively before being reported. ")
K8 = ("The non-linear code cannot be decided at 64-bit words (bit-blasted multipliers), so the same generic source is checked "
      "in a scripted 8-bit-word build (Word=u8) over all values inside the stated shapes (typically 12-24 free bits, placed "
      "next to 0 and 2^8 where carries, borrows and estimate corrections live). ")
T_K64 = "Kani/CBMC bounded model checking, 64-bit words, all values of symbolic operands, reference-model oracle, native replay"
T_K8 = "Kani/CBMC bounded model checking of a scripted 8-bit-word build, shaped symbolic operands, division-free integer oracles, native replay"

claim("C02", K8 + "Kernels div2by1 (its whole domain), div3by2, Uint<1..4>::div_rem/div_rem_vartime/rem and the by-limb forms against "
      "n = q*d + r, r < d, with constructive shapes n = q*d + r that contain exact multiples, +-1 neighbours and Knuth add-back "
      "inputs; Uint::rem_wide_vartime (double-width dividend) constructively; BoxedUint division at 1-4 limbs with equal and different "
      "precisions (div_rem_vartime / rem_vartime, the constant-time div_rem, by-limb, checked, operator, assigning and trait forms). "
      "The 64-bit reciprocal() table code is replaced by its definition in that build and is outside the claim.",
      T_K8, "DESIGN.md section 4 C02")
claim("C03", K8 + "Schoolbook multiply/square at 1x1..4x4 limbs, all public forms, and the Karatsuba template instantiated at (4,2,1) "
      "(same macro body as the production 128..8 line) against the u64 product; word primitives (mac, mul_wide) at all 8-bit values "
      "and shaped 64-bit values; BoxedUint mul / square / checked / wrapping / operator forms at unequal lengths; the recursive boxed Karatsuba "
      "bodies (incl. trailing-limb handling) in a copy whose two thresholds are lowered to (2, 1) so that they run at 2..8 limbs - this found "
      "and led to the repair of a dropped carry in BoxedUint::mul (33 x 35 limbs). Production dispatch widths 16..128 limbs of the fixed "
      "template and behaviour at the real thresholds are outside.",
      T_K8, "DESIGN.md section 4 C03")
claim("C04", K64 + "Limb, Uint<1..4> (thorough 6, 8), BoxedUint 1..4 limbs with equal and different precisions, primitive/Uint right-hand "
      "sides, Wrapping/Checked wrappers (every operator form for every some/none combination of the operands), every carry/borrow-in word; "
      "documented panics checked in both directions; the release-profile "
      "behaviour of the boxed assigning forms is checked in a debug-assertions-off build.", T_K64, "DESIGN.md section 4 C04")
claim("C05", K64 + "Uint<1..4> (thorough 5, 6, 8), Int<1..3>, double-width shifts, internal limb-shift helpers, bit queries and set_bit for "
      "every u32 shift / index through a symbolic-bit-position oracle (one assertion covers all positions); BoxedUint shifts (all forms), "
      "bit queries, set_bit and bitwise operators at 1-3 limbs incl. narrower / wider right-hand sides.",
      T_K64, "DESIGN.md section 4 C05")
claim("C06", K64 + "ConstChoice predicates on all word pairs; Uint/Int/Limb/BoxedUint (equal and different precision) comparisons against a "
      "lexicographic / two's-complement reference and native u128/i128; Hash coherence through a recording Hasher; select/assign/swap "
      "return exactly one operand, incl. MontyParams / MontyForm field for field.", T_K64, "DESIGN.md section 4 C06")
claim("C07", K64 + "add_mod/sub_mod/neg_mod/double_mod, the special-modulus forms for every word c, halving, boxed forms at 1..3 limbs for every "
      "modulus and all operands below it; BoxedMontyForm add/sub/neg/double/div_by_2. " + K8 + "mul_mod, mul_mod_vartime, mul_mod_special at 1-3 limbs, "
      "BoxedUint::mul_mod on concrete moduli with symbolic operands.",
      T_K64 + "; " + T_K8, "DESIGN.md section 4 C07")
claim("C08", K8 + "History quantification is replaced by one inductive step from an arbitrary valid state (any x < m is a Montgomery form): "
      "montgomery_reduction on its whole 1-limb domain against textbook REDC, every operation of MontyForm<1> for every odd modulus and "
      "all stored operands, MontyForm<2> and the boxed multiplier / almost_montgomery_mul under shapes, parameter constructors against "
      "their definitions for every odd 1-limb modulus. Boxed parameter derivation with a symbolic modulus does not finish and is "
      "checked on concrete moduli only (thorough); BoxedMontyForm mul / square / linear wrappers through the public API.", T_K8, "DESIGN.md section 4 C08")
claim("C09", K8 + "Compositional on C08: pow_bounded_exp for concrete bit bounds k in {0,1,3,4,5,8} (thorough: 2,6,7,9,13 and 2-limb exponents) "
      "and multi-exponentiation against a bit-serial ladder built from the crate's own checked mul/square; lincomb_vartime for 1-3 terms "
      "(below, at and above one accumulation window) against the fold of single REDC products; the boxed pow kernel for moduli 81, 125, 255 and "
      "shaped moduli, and its final reduction as a cut point (arbitrary accumulator below 3m, real 64-bit words).", T_K8 + "; cut-point slice of the current source", "DESIGN.md section 4 C09 and 10.1")
claim("C10", "PARTIAL. " + K8 + "Inversion modulo 2^k (three variants) for every a and every k at 1-2 limbs; the linear kernels of the safegcd "
      "core (UnsatInt conversion/add/neg/shr/eq, iteration count formula, the final normalisation norm() of the fixed and boxed inverters as a "
      "cut point, boxed conversions; the sizing of the boxed work integers (documented headroom bits <= 62*nlimbs - 64 for every "
      "precision up to 65536 limbs, same count as the fixed-size macro) and, as cut-point slices of the current source text, the loop bound "
      "that divsteps (fixed and boxed) hands to the iteration, which must cover both operands) at 64-bit words. The Bernstein-Yang divsteps iteration itself and "
      "every end-to-end inversion/gcd through it are NOT decided (no bound within reach: >= 26 data-dependent 62-step jumps of 64x64 "
      "products); changes confined to that core are outside what this check can see.", T_K8 + "; " + T_K64, "DESIGN.md section 4 C10")
claim("C11", "Every functional harness of the other properties runs with Kani's panic, overflow, bounds, debug_assert, unwrap/expect and "
      "unwinding checks on, so 'no panic / trap / failed internal assertion / non-termination within the unwind bound' is discharged by the "
      "same solver queries for the inputs they cover (thorough tier: all of them). The quick tier runs C11's own harnesses: option-returning "
      "APIs with arbitrary arguments, documented panics in both directions (panics exactly when documented), and a release-profile build "
      "(debug assertions off, wrapping arithmetic).", T_K64 + "; documented-panic harness pairs; release-profile build", "DESIGN.md section 4 C11")
claim("C12", K64 + "Every producer of NonZero / Odd values found in the source (constructors, conversions, Default, constants, selection, "
      "byte/hex decoders in both byte orders, random generation over every bounded RNG stream) is run on arbitrary arguments and the "
      "invariant is asserted on whatever comes out ('valid or fails'); serde deserialisation through an in-harness data format; hex decoding of "
      "every 4-character string in the 8-bit-word build.", T_K64 + ", RNG replaced by a bounded symbolic tape", "DESIGN.md section 4 C12")
claim("C13", K64 + "add/sub/neg/abs/sign reconstruction/resize/from-primitive at Int<1..4> against native i128 and a sign-extended ripple reference. "
      + K8 + "Int x Int, Int x Uint, widening, checked and squaring forms at 1-2 limbs (equal and mixed widths, result narrower or wider than the other "
      "operand) against i64; Checked<Int> operator forms.", T_K64 + "; " + T_K8, "DESIGN.md section 4 C13")
claim("C14", K8 + "Truncating, flooring and by-unsigned division flavours of Int<1> (all values) and Int<2> (shaped, incl. MIN, MAX, -1) against "
      "multiplication-based predicates n = q*d + r with the sign convention of each flavour; none exactly for d = 0 or MIN / -1; Int<3> with "
      "constructive shapes (rare kernel branches), mixed-width vartime forms; the shared limb kernels (div2by1 on its whole domain, div3by2) "
      "are part of this check.",
      T_K8, "DESIGN.md section 4 C14")
claim("C15", "Differential harnesses: the same symbolic input through two routes must give bit-identical results (ct vs vartime, boxed vs fixed, "
      "trait vs inherent vs operator, precomputed vs one-shot reciprocal). Most pairs are asserted inside the exactness harnesses of the "
      "other properties (tagged C15, all run in the thorough tier); the quick tier runs the explicit boxed-vs-fixed pairs and a core subset. "
      "Routes through the safegcd core and const-context evaluation are outside.", T_K64 + "; " + T_K8 + "; differential assertions", "DESIGN.md section 4 C15")
claim("C16", K64 + "Byte encodings positional through a symbolic byte index and mutually inverse for U64/U128/U192/U256, hex decoders on all "
      "ASCII strings (malformed input must panic / be none), primitive/word/concat/split/resize conversions, boxed slice decoders for "
      "symbolic lengths at concrete precisions incl. non-multiples of 8 and 64; serde round trips (binary and text) through an in-harness data "
      "format; Display / LowerHex / UpperHex of Limb, Uint<1>, Int<1> and the wrappers through core::fmt.", T_K64, "DESIGN.md section 4 C16")
claim("C17", "PARTIAL. " + K8 + "Parser: every ASCII string of concrete length 1-3 for radices 10, 16, 36 (exact unwind bounds) against a reference "
      "grammar, incl. overflow reporting at the 2^8 boundary; encoder kernels (division by radix power, shifting) for all 1-2-limb values. "
      "BoxedUint parsing with an explicit precision (radix 16, 36). The large-divisor recursion of the encoder runs in the thorough tier in a copy "
      "with RADIX_ENCODING_LIMBS_LARGE lowered to 2 (radix 36, 3 limbs); its division kernel is part of this check. The String wrapper "
      "(to_string_radix_vartime), the other radices in the quick tier and the 64-bit digit batching are outside.", T_K8, "DESIGN.md section 4 C17")
claim("C18", K64 + "DER: TryFrom<UintRef/AnyRef> on every byte string up to capacity+3 (AnyRef: accepted exactly when canonical), EncodeValue canonical form and round trip for U64/U128. "
      "RLP: the decoder on every single-item input of length 1,2,3,9,10 for U64 accepts only canonical strings. The RLP encoder "
      "(RlpStream over BytesMut) does not finish under CBMC and is NOT claimed.", T_K64, "DESIGN.md section 4 C18")
claim("C19", K64 + "The RNG is a bounded symbolic tape: random_mod / random_bits return exactly the first admissible candidate of a reference "
      "rejection sampler (range, mask exactness, words consumed), every admissible value is reachable (surjectivity witness), documented "
      "errors exactly, boxed == fixed on the same stream, ConstMontyForm sampling makes the same accept/reject decisions. Uniformity follows from these by a counting argument stated in DESIGN.md; no "
      "statistics are run.", T_K64 + ", RNG replaced by a bounded symbolic tape", "DESIGN.md section 4 C19")
claim("C20", K8 + "sqrt / sqrt_vartime / checked / wrapping forms: all 8-bit inputs, neighbourhoods of perfect squares and top-heavy shapes at 2-3 "
      "limbs (thorough: all 16-bit inputs and extreme roots at 3-7 limbs), boxed forms equal to fixed ones; oracle s*s <= x < (s+1)*(s+1); the loop-bound "
      "helper log2_bits and the division kernels are part of this check. The boxed iteration count at the one width where it is tight "
      "(7 limbs of 8 bits) is not decided.", T_K8, "DESIGN.md section 4 C20")

claim("C01", "Relational (2-safety) symbolic execution of the optimised LLVM IR (rustc -C opt-level=3, lto=fat) of one wrapper per public "
      "non-vartime operation and width: all secret operands symbolic, public parameters concrete and enumerated; at every branch "
      "condition, memory address, mem-intrinsic length and variable-divisor division operand z3 decides whether two admissible secrets "
      "can make the value differ. Leaks are replayed on the machine code (valgrind lackey instruction/address traces of the two witness "
      "secrets) before being reported. Bounds: the listed wrappers (Limb, U64..U256, I128, MontyForm<4>, BoxedUint 2 limbs), the listed "
      "public values, IR level (machine-code lowering of select/arithmetic is outside), non-panicking runs; boxed operands of equal and different precision.",
      "relational symbolic execution of rustc's optimised LLVM IR with z3 (own engine ctsym); translator validated per run against native execution; valgrind-lackey replay",
      "DESIGN.md section 2.3 and 4 C01",
      note="Trusted: rustc's LLVM-IR emission, the IR interpreter in /verif/ctsym (its concrete mode is compared with the native release binary on "
           "every wrapper in every run), z3 5.1. Assumes panic guards are not taken (totality is C11), division by constants is strength-reduced, "
           "and integer select is lowered branch-free. Single path: after a recorded known leak, later leak points are examined only on the "
           "sub-space agreeing with the first witness (or not at all for the safegcd core).",
      engine="ctsym")
