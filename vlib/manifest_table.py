from .manifest_gen import claim, NOT_APPLICABLE

claim("C04",
      "Bounded model checking of the real add/sub/neg code at the real 64-bit word width: for the listed limb counts every "
      "value of every operand (and every carry/borrow-in word) is covered by one SAT query per harness against a u128 / "
      "ripple-carry reference; unwinding assertions on. Limb counts above those listed are outside the claim.",
      "Kani/CBMC bounded model checking, full-width symbolic operands, u128/ripple reference oracle, cover-based vacuity witnesses, native replay",
      "DESIGN.md section 4 C04")
