"""Derived copies of /repo's *current working tree* (DESIGN.md section 1).

Nothing here edits /repo.  A copy lives under a scratch directory outside /repo
and /verif and is removed (with its target dir) by the caller's `finally`.
"""
import os
import re
import shutil
import tempfile

REPO = os.environ.get("VERIF_REPO", "/repo")
VERIF = os.path.dirname(os.path.dirname(os.path.abspath(__file__)))
HARNESS_DIR = os.path.join(VERIF, "kani", "harness")

# parent module file (relative to src/) -> injected child-module name prefix.
# Items in private modules are only visible to descendants of their parent, so
# a harness file named  <stem>__<anything>.rs  is dropped next to that parent.
INJECT_PARENTS = {
    "lib": "lib.rs",
    "modular": "modular.rs",
    "boxed_monty_form": "modular/boxed_monty_form.rs",
    "boxed_pow": "modular/boxed_monty_form/pow.rs",
    "safegcd": "modular/safegcd.rs",
    "safegcd_boxed": "modular/safegcd/boxed.rs",
    "encoding": "uint/encoding.rs",
    "uint_mul": "uint/mul.rs",
    "uint": "uint.rs",
    "boxed": "uint/boxed.rs",
    "boxed_encoding": "uint/boxed/encoding.rs",
    "monty_form": "modular/monty_form.rs",
    "const_monty_form": "modular/const_monty_form.rs",
    "int": "int.rs",
    "limb": "limb.rs",
    "uint_rand": "uint/rand.rs",
    "limb_rand": "limb/rand.rs",
    "boxed_rand": "uint/boxed/rand.rs",
    "der": "uint/encoding/der.rs",
    "rlp": "uint/encoding/rlp.rs",
}


class DeriveError(Exception):
    pass


def scratch_root():
    root = os.environ.get("VERIF_SCRATCH", "/tmp")
    os.makedirs(root, exist_ok=True)
    return root


def _strip_manifest(text):
    """Drop [[bench]] tables and [dev-dependencies]: the copy has no benches/
    and the native replay build must not drag criterion/proptest in."""
    out, skip = [], False
    for line in text.splitlines():
        s = line.strip()
        if s.startswith("["):
            skip = s in ("[[bench]]", "[dev-dependencies]")
        if not skip:
            out.append(line)
    out.append("")
    out.append("[workspace]")
    out.append("")
    # Kani's cfg and ours must not trigger unexpected_cfgs warnings-as-errors
    out.append("[lints.rust]")
    out.append('unexpected_cfgs = { level = "allow" }')
    return "\n".join(out) + "\n"


def module_dir_for(parent_rel):
    """Directory in which child modules of src/<parent_rel> live."""
    if parent_rel == "lib.rs":
        return ""
    return parent_rel[:-3]  # modular.rs -> modular/


def make_copy(tag, harness_files, extra_appends=None, narrow=False, cfg_name="kani", kara_small=False):
    """Copy /repo's working tree and inject the given harness files.

    harness_files: list of absolute paths under kani/harness/.  File naming:
      <parentkey>__<name>.rs  -> injected as child module of INJECT_PARENTS[parentkey]
      anything else           -> child of lib.rs (parentkey 'lib').
    A file `common.rs`/`common8.rs` is injected like any other when listed.
    Returns the scratch directory (contains crate/ and target/).
    """
    top = tempfile.mkdtemp(prefix="cbv-%s-" % tag, dir=scratch_root())
    crate = os.path.join(top, "crate")
    os.makedirs(crate)
    shutil.copytree(os.path.join(REPO, "src"), os.path.join(crate, "src"))
    for f in ("Cargo.lock", "README.md"):
        shutil.copy(os.path.join(REPO, f), os.path.join(crate, f))
    with open(os.path.join(REPO, "Cargo.toml")) as fh:
        manifest = _strip_manifest(fh.read())
    with open(os.path.join(crate, "Cargo.toml"), "w") as fh:
        fh.write(manifest)
    os.makedirs(os.path.join(crate, ".cargo"))
    with open(os.path.join(crate, ".cargo", "config.toml"), "w") as fh:
        fh.write("[net]\noffline = true\n")

    if narrow:
        from . import narrow as nw
        nw.apply(os.path.join(crate, "src"))
        if kara_small:
            nw.karatsuba_small(os.path.join(crate, "src"))

    appends = {}  # parent_rel -> list of lines
    for hf in harness_files:
        base = os.path.basename(hf)
        stem = base[:-3]
        if "__" in stem:
            key = stem.split("__", 1)[0]
        else:
            key = "lib"
        if key not in INJECT_PARENTS:
            raise DeriveError("unknown injection parent %r for %s" % (key, hf))
        parent_rel = INJECT_PARENTS[key]
        parent_abs = os.path.join(crate, "src", parent_rel)
        if not os.path.exists(parent_abs):
            raise DeriveError("injection parent src/%s no longer exists" % parent_rel)
        modname = "__verif_" + stem
        ddir = os.path.join(crate, "src", module_dir_for(parent_rel))
        os.makedirs(ddir, exist_ok=True)
        shutil.copy(hf, os.path.join(ddir, modname + ".rs"))
        for rel, text in extract_directives(hf, os.path.join(crate, "src")):
            appends.setdefault(rel, []).append(text)
        appends.setdefault(parent_rel, []).append(
            "#[cfg(%s)]\n#[allow(missing_docs, unused, unused_qualifications, trivial_casts, trivial_numeric_casts, clippy::all, unsafe_code, dead_code)]\nmod %s;\n"
            % (cfg_name, modname)
        )
    for rel, lines in (extra_appends or {}).items():
        appends.setdefault(rel, []).extend(lines)
    for rel, lines in appends.items():
        with open(os.path.join(crate, "src", rel), "a") as fh:
            fh.write("\n// ---- appended by /verif (derived copy; never in /repo) ----\n")
            for l in lines:
                fh.write(l if l.endswith("\n") else l + "\n")
    return top


_EXTRACT = re.compile(r'^//@@ extract file=(\S+) from=("(?:[^"\\]|\\.)*") to=("(?:[^"\\]|\\.)*") sig=("(?:[^"\\]|\\.)*") ret=("(?:[^"\\]|\\.)*")\s*$', re.M)


def extract_directives(harness_file, src_root):
    """Cut-point slices: `//@@ extract file=F from="A" to="B" sig="fn ..." ret="expr"` in a harness
    file makes the derived copy of F carry, under cfg(kani), a function with signature `sig` whose body
    is the text of F from the first occurrence of A up to (excluding) the next occurrence of B,
    followed by `ret`.  The body is taken from the *current* source on every run; a missing anchor
    raises DeriveError (reported as inconclusive).  Strings use JSON escapes."""
    import json as _json
    out = []
    with open(harness_file) as fh:
        txt = fh.read()
    for m in _EXTRACT.finditer(txt):
        rel = m.group(1)
        a, b, sig, ret = (_json.loads(m.group(i)) for i in (2, 3, 4, 5))
        path = os.path.join(src_root, rel)
        if not os.path.exists(path):
            raise DeriveError("extract: src/%s no longer exists" % rel)
        with open(path) as fh:
            src = fh.read()
        i = src.find(a)
        if i < 0:
            raise DeriveError("extract: start anchor %r not found in src/%s" % (a, rel))
        j = src.find(b, i + len(a))
        if j < 0:
            raise DeriveError("extract: end anchor %r not found in src/%s" % (b, rel))
        body = src[i:j]
        out.append((rel, "#[cfg(kani)]\n#[allow(missing_docs, unused, dead_code)]\n%s {\n%s\n    %s\n}\n" % (sig, body, ret)))
    return out


def remove(top):
    if top and os.path.isdir(top) and os.path.basename(top).startswith("cbv-"):
        shutil.rmtree(top, ignore_errors=True)


KARATSUBA_APPEND = {
    "uint/mul/karatsuba.rs": [
        "#[cfg(kani)] impl_uint_karatsuba_multiplication!(4, 2, 1);",
        "#[cfg(kani)] impl_uint_karatsuba_squaring!(4, 2, 1);",
    ]
}
