"""Harness registry: metadata lives next to the harness as `//@ key=value ...`
comment lines directly above `#[kani::proof]`; this module parses them."""
import glob
import os
import re
import shlex

from .derive import HARNESS_DIR

_FN = re.compile(r"^\s*(?:pub\s+)?fn\s+([A-Za-z0-9_]+)\s*\(")
_MACRO_INST = re.compile(r"^\s*([a-z0-9_]+)!\s*\(\s*([A-Za-z0-9_]+)\s*[,)]")


class Harness:
    def __init__(self, name, file, meta, line):
        self.name = name
        self.file = file
        self.meta = meta
        self.line = line
        self.props = [p.strip() for p in meta.get("prop", "").split(",") if p.strip()]
        self.tier = meta.get("tier", "quick")
        self.profile = meta.get("profile", "k64")
        self.funcs = [f.strip() for f in meta.get("funcs", "").split(",") if f.strip()]
        self.bound = meta.get("bound", "")
        self.expect = meta.get("expect", "")  # "finding:<key>" or ""
        self.should_panic = meta.get("should_panic", "") in ("1", "true", "yes")
        self.timeout = int(meta.get("timeout", "0") or 0)
        self.free_bits = meta.get("free_bits", "")
        self.karatsuba = meta.get("karatsuba", "") in ("1", "true", "yes")
        self.stubs = meta.get("stubs", "")
        self.assumes = meta.get("assumes", "")
        self.nocover = meta.get("nocover", "") in ("1", "true", "yes")
        self.must_panic = meta.get("must_panic", "") in ("1", "true", "yes")
        self.may_panic = meta.get("may_panic", "") in ("1", "true", "yes")
        # aggregated properties (C11 totality, C15 routes) are attached to most harnesses; their QUICK
        # tier runs only the harnesses whose primary (first) property they are, or that name them in
        # `core=`; documented-panic harnesses are always part of C11's core.  Thorough runs all.
        self.core = [c.strip() for c in meta.get("core", "").split(",") if c.strip()]
        if (self.must_panic or self.may_panic) and "C11" in self.props and "C11" not in self.core:
            self.core.append("C11")

    @property
    def modname(self):
        return "__verif_" + os.path.basename(self.file)[:-3]

    def in_tier(self, tier, prop=None):
        if tier == "thorough":
            return True
        if self.tier != "quick":
            return False
        if prop in ("C11", "C15") and self.props and self.props[0] != prop and prop not in self.core:
            return False
        return True


def parse_file(path):
    out = []
    pending = None
    pline = 0
    with open(path) as fh:
        lines = fh.read().splitlines()
    for i, line in enumerate(lines):
        s = line.strip()
        if s.startswith("//@@"):
            continue  # derive-time directive (vlib/derive.py extract_directives)
        if s.startswith("//@"):
            body = s[3:].strip()
            toks = shlex.split(body)
            meta = pending or {}
            for t in toks:
                if "=" in t:
                    k, v = t.split("=", 1)
                    meta[k] = v
            pending = meta
            pline = i + 1
            continue
        if pending is not None:
            m = _FN.match(line)
            if m:
                out.append(Harness(m.group(1), path, pending, pline))
                pending = None
                continue
            m = _MACRO_INST.match(line)
            if m and "name" in pending:
                out.append(Harness(pending["name"], path, pending, pline))
                pending = None
                continue
            if s and not s.startswith("#[") and not s.startswith("//"):
                # metadata not followed by a fn: ignore
                pending = None
    return out


def load_all():
    hs = []
    for f in sorted(glob.glob(os.path.join(HARNESS_DIR, "*.rs"))):
        hs.extend(parse_file(f))
    names = {}
    for h in hs:
        if h.name in names:
            raise SystemExit("duplicate harness name %s in %s and %s" % (h.name, h.file, names[h.name]))
        names[h.name] = h.file
    return hs


def support_files(profile):
    """Harness-support modules (no proofs) every copy of the profile gets."""
    out = []
    for base in ("common.rs",):
        p = os.path.join(HARNESS_DIR, base)
        if os.path.exists(p):
            out.append(p)
    return out
