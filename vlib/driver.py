"""`check <ID>` driver for the Kani-decided properties (C02..C20)."""
import json
import os
import re
import subprocess
import sys
import threading
import time

from . import derive, kanirun, registry
from .derive import VERIF

# VERIF_OUT redirects evidence/replay/logs (used only by the development tool that runs a check
# against a scratch worktree holding a seeded change; registered commands never set it).
OUT = os.environ.get("VERIF_OUT", VERIF)
EVID_DIR = os.path.join(OUT, "evidence")
REPLAY_DIR = os.path.join(OUT, "replay")
KNOWN = os.path.join(VERIF, "known_findings.json")
LOG_DIR = os.path.join(OUT, "logs")

NCPU = os.cpu_count() or 4


def log(*a):
    print(*a, flush=True)


def load_known():
    if not os.path.exists(KNOWN):
        return {"findings": [], "fixed": []}
    with open(KNOWN) as fh:
        return json.load(fh)


def tier_timeout(tier):
    v = os.environ.get("VERIF_HARNESS_TIMEOUT")
    if v:
        return int(v)
    return 600 if tier == "quick" else 3600


def select(prop, tier, only=None):
    hs = [h for h in registry.load_all() if prop in h.props and h.in_tier(tier, prop)]
    if only:
        hs = [h for h in hs if any(re.search(o, h.name) for o in only)]
    return hs


def files_for(hs, profile):
    files = []
    for h in hs:
        if h.file not in files:
            files.append(h.file)
    for s in registry.support_files(profile):
        if s not in files:
            files.append(s)
    return files


def unwinding_only(rec):
    f = rec.get("failed", [])
    return bool(f) and all("unwinding assertion" in (c["description"] or "") for c in f)


MARKER = "VERIF-MUST-PANIC"


def classify(rec):
    """-> one of ok, vacuous, fail, inconclusive"""
    st = rec["status"]
    if rec.get("must_panic"):
        # documented-panic harness: the only acceptable outcome is a failure in which the
        # marker after the call is NOT among the failed checks (every path panicked before it)
        if st == "fail" and rec["failed"] and not unwinding_only(rec):
            if any(MARKER in (c["description"] or "") or "must_have_panicked" in (c.get("function") or "")
                   for c in rec["failed"]):
                return "fail"
            return "ok"
        if st == "pass":
            return "vacuous"  # nothing panicked and marker unreachable: assumptions unsatisfiable
        return "inconclusive"
    if rec.get("may_panic") and st == "fail" and rec["failed"] and not unwinding_only(rec):
        # "valid result or failure" harness: library panics are an accepted way to fail;
        # only the harness's own assertions (located in the injected module) count.
        own = [c for c in rec["failed"] if "__verif_" in (c["location"] or "")]
        rec["tolerated_panics"] = [c for c in rec["failed"] if c not in own]
        if own:
            rec["failed"] = own
            return "fail"
        bad = [c for c in rec["covers"] if c["status"] != "Satisfied"]
        return "vacuous" if bad else "ok"
    if st == "pass":
        bad = [c for c in rec["covers"] if c["status"] != "Satisfied"]
        if bad:
            return "vacuous"
        return "ok"
    if st == "fail":
        if unwinding_only(rec):
            return "inconclusive"
        return "fail"
    return "inconclusive"


# ---------------------------------------------------------------- replay

def gen_playback_test(top, profile, h, log_path):
    """Ask Kani for a concrete counterexample of harness h; returns test source or None."""
    crate = os.path.join(top, "crate")
    target = os.path.join(top, "target")
    cmd = ["cargo", "kani", "--no-default-features", "--features", kanirun.FEATURES[profile],
           "--harness", "%s::%s" % (kanirun.fqmod(h), h.name), "--exact",
           "--output-format", "terse", "-Z", "unstable-options", "-Z", "stubbing",
           "-Z", "concrete-playback", "--concrete-playback=print", "--no-assertion-reach-checks",
           "--harness-timeout", "%ds" % tier_timeout("thorough"),
           "--target-dir", target]
    if profile == "k64r":
        cmd += ["--no-overflow-checks"]
    fs = os.environ.get("VERIF_FS_ARRAY", "1024")
    if fs != "0":
        cmd += ["--cbmc-args", "--max-field-sensitivity-array-size", fs]
    p = subprocess.run(cmd, cwd=crate, env=kanirun.base_env(profile), stdout=subprocess.PIPE,
                       stderr=subprocess.STDOUT, text=True)
    with open(log_path, "a") as fh:
        fh.write("\n$ " + " ".join(cmd) + "\n" + p.stdout[-20000:])
    tests = re.findall(r"```\n(.*?)```", p.stdout, re.S)
    tests = [t for t in tests if "concrete_playback_run" in t and "Check for `cover`" not in t]
    # Kani's doc comment quotes the failed check; a multi-line assertion text leaves its continuation
    # lines uncommented.  Keep the test item only.
    tests = [t[t.index("#[test]"):] if "#[test]" in t else t for t in tests]
    return tests


def need_for(must_panic, may_panic):
    if must_panic:
        return MARKER
    if may_panic:
        return r"panicked at [^\n]*__verif_"
    return None


def nativeize(test_src):
    return (test_src.replace("Vec<Vec<u8>>", "alloc::vec::Vec<alloc::vec::Vec<u8>>")
            .replace(" vec![", " alloc::vec!["))


def run_playback(profile, harness_file, support, tests, log_path, release=False, need_text=None):
    """Splice tests into a fresh derived copy (dev-deps kept) and run natively.
    Returns dict testname -> 'failed'|'passed'|'error'."""
    # inject: copy with test code appended to the harness file
    import shutil
    import tempfile
    tmpd = tempfile.mkdtemp(prefix="cbv-rp-", dir=derive.scratch_root())
    try:
        hf = os.path.join(tmpd, os.path.basename(harness_file))
        shutil.copy(harness_file, hf)
        with open(hf, "a") as fh:
            fh.write("\n// ---- replay tests ----\n")
            for t in tests:
                fh.write(nativeize(t) + "\n")
        files = [hf] + [s for s in support if os.path.basename(s) != os.path.basename(hf)]
        extra = dict(derive.KARATSUBA_APPEND)
        top = derive.make_copy("replay", files, extra_appends=extra, narrow=profile in ("k8", "k8k"),
                               kara_small=(profile == "k8k"))
    finally:
        pass
    res = {}
    try:
        crate = os.path.join(top, "crate")
        # The crate's own #[cfg(test)] modules are disabled in the replay copy: they need the
        # dev-dependencies and (k8) do not compile under narrowing; the playback tests are #[test]
        # functions inside the injected harness module and do not depend on them.
        for dp, _dn, fns in os.walk(os.path.join(crate, "src")):
            for fn in fns:
                if not fn.endswith(".rs") or fn.startswith("__verif_"):
                    continue
                fp = os.path.join(dp, fn)
                with open(fp) as fh:
                    txt = fh.read()
                t2 = txt.replace("#[cfg(test)]", "#[cfg(any())]").replace("#[cfg(all(test,", "#[cfg(all(any(),")
                if t2 != txt:
                    with open(fp, "w") as fh:
                        fh.write(t2)
        names = re.findall(r"fn (kani_concrete_playback_[A-Za-z0-9_]+)", "\n".join(tests))
        for nm in names:
            cmd = ["cargo", "kani", "playback", "-Z", "concrete-playback", "--no-default-features",
                   "--features", kanirun.FEATURES[profile]]
            if release:
                cmd += ["--release"]
            cmd += ["--", nm]
            env = kanirun.base_env(profile)
            p = subprocess.run(cmd, cwd=crate, env=env, stdout=subprocess.PIPE,
                               stderr=subprocess.STDOUT, text=True)
            with open(log_path, "a") as fh:
                fh.write("\n$ " + " ".join(cmd) + "\n" + p.stdout[-20000:])
            if re.search(r"test result: FAILED", p.stdout) and re.search(r"%s \.\.\. FAILED" % nm, p.stdout):
                if need_text and not re.search(need_text, p.stdout):
                    res[nm] = "passed"  # it panicked, but at the documented site, not at the marker
                else:
                    res[nm] = "failed"
            elif re.search(r"%s \.\.\. ok" % nm, p.stdout):
                res[nm] = "passed"
            else:
                res[nm] = "error"
    finally:
        derive.remove(top)
        shutil.rmtree(tmpd, ignore_errors=True)
    return res


def replay_failure(prop, top, profile, h, rec, log_path):
    """Returns (reproduced: bool|None, replay_path)."""
    tests = gen_playback_test(top, profile, h, log_path)
    os.makedirs(os.path.join(REPLAY_DIR, prop), exist_ok=True)
    path = os.path.join(REPLAY_DIR, prop, h.name + ".replay.rs")
    header = ("// replay for property %s harness %s profile %s\n// harness-file: %s\n// must-panic: %d\n// may-panic: %d\n// failed: %s\n"
              % (prop, h.name, profile, os.path.relpath(h.file, VERIF), 1 if h.must_panic else 0, 1 if h.may_panic else 0,
                 "; ".join("%s @ %s" % (c["description"], c["location"]) for c in rec["failed"])))
    with open(path, "w") as fh:
        fh.write(header + "\n".join(tests))
    if not tests:
        return None, path
    res = run_playback(profile, h.file, registry.support_files(profile), tests, log_path,
                       need_text=need_for(h.must_panic, h.may_panic))
    if any(v == "failed" for v in res.values()):
        return True, path
    if all(v == "passed" for v in res.values()):
        return False, path
    return None, path


def replay_stored(path):
    with open(path) as fh:
        txt = fh.read()
    m = re.search(r"// replay for property (\S+) harness (\S+) profile (\S+)", txt)
    f = re.search(r"// harness-file: (\S+)", txt)
    if not m or not f:
        log("not a replay file:", path)
        return 2
    prop, hname, profile = m.groups()
    tests = re.findall(r"(///.*?\n#\[test\].*?\n}\n)", txt, re.S) or [txt.split("\n", 3)[3]]
    os.makedirs(LOG_DIR, exist_ok=True)
    lp = os.path.join(LOG_DIR, "replay-%s.log" % hname)
    mp = re.search(r"// must-panic: 1", txt) is not None
    yp = re.search(r"// may-panic: 1", txt) is not None
    res = run_playback(profile, os.path.join(VERIF, f.group(1)), registry.support_files(profile), tests, lp,
                       need_text=need_for(mp, yp))
    log("replay result:", res)
    if any(v == "failed" for v in res.values()):
        log("VIOLATION property=%s replay=%s" % (prop, path))
        return 1
    return 0 if res and all(v == "passed" for v in res.values()) else 2


# ---------------------------------------------------------------- main

def run_profile(prop, tier, profile, hs, jobs, results, tops):
    os.makedirs(LOG_DIR, exist_ok=True)
    log_path = os.path.join(LOG_DIR, "%s-%s-%s.log" % (prop, tier, profile))
    extra = {}
    if any(h.karatsuba for h in hs) or profile in ("k8", "k8k"):
        extra.update(derive.KARATSUBA_APPEND)
    try:
        top = derive.make_copy("%s-%s" % (prop, profile), files_for(hs, profile),
                               extra_appends=extra, narrow=profile in ("k8", "k8k"),
                               kara_small=(profile == "k8k"))
    except Exception as e:
        results[profile] = {"error": "derive failed: %r" % (e,), "records": [], "log": log_path}
        return
    tops[profile] = top
    recs, build_ok, tail, wall, rc = kanirun.run(top, profile, hs, jobs, tier_timeout(tier), log_path)
    results[profile] = {"records": recs, "build_ok": build_ok, "tail": tail, "wall": wall, "rc": rc,
                        "log": log_path, "error": None if build_ok else "kani build failed"}


def check(prop, tier, only=None, seed=0):
    t0 = time.time()
    hs = select(prop, tier, only)
    if not hs:
        log("no harness registered for", prop, tier)
        return 2
    if seed:
        import random
        random.Random(seed).shuffle(hs)
    by_prof = {}
    for h in hs:
        by_prof.setdefault(h.profile, []).append(h)
    known = load_known()
    kf = {f["key"]: f for f in known.get("findings", []) if f.get("property") == prop or prop in f.get("properties", [])}
    results, tops = {}, {}
    threads = []
    total = len(hs)
    for prof, phs in by_prof.items():
        jobs = max(1, min(len(phs), (NCPU * len(phs)) // total))
        th = threading.Thread(target=run_profile, args=(prop, tier, prof, phs, jobs, results, tops))
        th.start()
        threads.append(th)
    for th in threads:
        th.join()

    violations, known_hits, inconclusive, oks = [], [], [], []
    unreplayed = []
    all_recs = []
    replayed = 0
    try:
        for prof, res in results.items():
            if res.get("error"):
                inconclusive.append({"harness": "<%s build>" % prof, "why": res["error"], "log": res["log"]})
                log("INCONCLUSIVE profile=%s %s (see %s)" % (prof, res["error"], res["log"]))
                if res.get("tail"):
                    err = [l for l in res["tail"].splitlines() if l.startswith("error")]
                    for l in err[:10]:
                        log("   ", l)
                continue
            hmap = {h.name: h for h in by_prof[prof]}
            for rec in res["records"]:
                all_recs.append(rec)
                h = hmap[rec["harness"]]
                c = classify(rec)
                rec["class"] = c
                if c == "ok":
                    oks.append(rec)
                elif c == "vacuous":
                    bad = [x["description"] for x in rec["covers"] if x["status"] != "Satisfied"] or ["must-panic harness: no path reaches the call"]
                    inconclusive.append({"harness": h.name, "why": "cover not satisfied: %s" % bad})
                    log("INCONCLUSIVE harness=%s vacuity witness not reachable: %s" % (h.name, bad))
                elif c == "inconclusive":
                    why = rec["status"]
                    if unwinding_only(rec):
                        why = "unwinding assertion failed (bound too small for this tree)"
                    inconclusive.append({"harness": h.name, "why": why})
                    log("INCONCLUSIVE harness=%s %s" % (h.name, why))
                else:  # fail
                    descs = ["%s [in %s]" % (x["description"] or "", x.get("function") or "") for x in rec["failed"]]
                    key = h.expect.split(":", 1)[1] if h.expect.startswith("finding:") else None
                    if key and key in kf:
                        allowed = kf[key].get("check_contains", [])
                        extra = [d for d in descs if not any(a in d for a in allowed)
                                 and "unwinding assertion" not in d]
                        if not extra:
                            known_hits.append((key, kf[key], rec))
                            rec["class"] = "known-finding"
                            continue
                    max_rp = int(os.environ.get("VERIF_MAX_REPLAY", "2"))
                    if len(violations) >= max_rp:
                        # enough confirmed counterexamples for this run; this one is reported, not replayed
                        log("harness %s FAILED: %s -- not replayed (%d violation(s) already confirmed natively)"
                            % (h.name, descs[:4], len(violations)))
                        rec["class"] = "fail-unreplayed"
                        unreplayed.append(h.name)
                        continue
                    log("harness %s FAILED: %s -- replaying natively" % (h.name, descs[:4]))
                    rp_log = os.path.join(LOG_DIR, "%s-replay-%s.log" % (prop, h.name))
                    ok, path = replay_failure(prop, tops[prof], prof, h, rec, rp_log)
                    replayed += 1
                    rec["replay"] = {"path": path, "reproduced": ok}
                    if ok:
                        violations.append((h, rec, path))
                    else:
                        inconclusive.append({"harness": h.name,
                                             "why": "counterexample did not reproduce natively (%s)" % ok})
                        log("INCONCLUSIVE harness=%s counterexample not reproduced natively (%s)" % (h.name, ok))
    finally:
        for top in tops.values():
            derive.remove(top)

    for key, f, rec in known_hits:
        log("KNOWN-FINDING: property=%s %s [harness %s]" % (prop, f["what"], rec["harness"]))
    for h, rec, path in violations:
        log("VIOLATION property=%s replay=%s" % (prop, path))
        log("   harness=%s failed=%s" % (h.name, [(x["description"], x["location"]) for x in rec["failed"]][:4]))

    wall = time.time() - t0
    write_evidence(prop, tier, seed, all_recs, oks, violations, known_hits, inconclusive, replayed, wall, results)
    log("%s tier=%s: %d harnesses, %d hold, %d known-finding, %d violation, %d inconclusive, %.0fs"
        % (prop, tier, len(hs), len(oks), len(known_hits), len(violations), len(inconclusive), wall))
    if violations:
        return 1
    if inconclusive:
        return 2
    return 0


def write_evidence(prop, tier, seed, recs, oks, violations, known_hits, inconclusive, replayed, wall, results):
    os.makedirs(EVID_DIR, exist_ok=True)
    samples = []
    assumptions = set()
    solver_s = symex_s = 0.0
    states = vccs = 0
    n_checks = 0
    n_covers = 0
    funcs = set()
    for r in recs:
        st = r.get("stats", {}) or {}
        solver_s += float(st.get("runtime_solver_s", 0) or 0)
        symex_s += float(st.get("runtime_symex_s", 0) or 0)
        states += int(st.get("size_program_expression", 0) or 0)
        vccs += int(st.get("vccs_generated", 0) or 0)
        n_checks += r.get("n_checks", 0)
        n_covers += len([c for c in r.get("covers", []) if c["status"] == "Satisfied"])
        funcs.update(r.get("funcs", []))
        if r.get("stubs"):
            assumptions.add("stub: " + r["stubs"])
        if r.get("assumes"):
            assumptions.add("harness %s assumes: %s" % (r["harness"], r["assumes"]))
        samples.append({
            "harness": r["harness"], "profile": r["profile"], "functions": r.get("funcs"),
            "bound": r.get("bound"), "free_bits": r.get("free_bits"),
            "verdict": r.get("class", r.get("status")), "kani_status": r.get("status"),
            "checks_discharged": r.get("n_checks"), "covers": r.get("covers"),
            "ssa_steps": st.get("size_program_expression"), "vccs": st.get("vccs_generated"),
            "vccs_remaining": st.get("vccs_remaining"),
            "solver_s": st.get("runtime_solver_s"), "symex_s": st.get("runtime_symex_s"),
            "duration_s": r.get("duration_s"), "failed": r.get("failed"), "replay": r.get("replay"),
        })
    profiles = sorted(set(r["profile"] for r in recs))
    if "k8" in profiles:
        assumptions.add("k8 profile: 8-bit-word build derived from the current source by vlib/narrow.py "
                        "(Word=u8, WideWord=u16; width-specific arms replaced, reciprocal() by its definition)")
    if "k8k" in profiles:
        assumptions.add("k8k profile: the k8 build with KARATSUBA_MIN_STARTING_LIMBS = 2, KARATSUBA_MAX_REDUCE_LIMBS = 1 and "
                        "RADIX_ENCODING_LIMBS_LARGE = 2 (real values 32 / 24 / 32) so that the recursive boxed Karatsuba bodies "
                        "and the large-divisor recursion of the radix encoder run at 2..6 limbs; "
                        "the behaviour at the real thresholds (operands of 32 limbs and more) is outside the bound")
    if "k64r" in profiles:
        assumptions.add("k64r profile: RUSTFLAGS=-C debug-assertions=off and --no-overflow-checks (release semantics)")
    assumptions.add("trusted: rustc/Kani 0.68 MIR->goto translation and std models, CBMC 6.11, CaDiCaL")
    assumptions.add("loops are unwound to the #[kani::unwind] bound with unwinding assertions ON")
    ev = {
        "property_id": prop,
        "tier": tier,
        "seed": int(seed),
        "level": "model_checking",
        "coverage": {
            "evaluations": n_checks,
            "distinct_nontrivial": len(oks) + len(known_hits),
            "rule": ("evaluations = CBMC properties (assertions, overflow/bounds/unwinding checks, covers) decided by the "
                     "SAT solver in this run, summed over harnesses; distinct_nontrivial = harnesses whose verdict was "
                     "conclusive (all properties UNSAT = hold for every input inside the stated bound, and every "
                     "kani::cover! vacuity witness SATISFIED), plus isolated known findings. Each harness is one "
                     "symbolic query over all values of its kani::any() inputs; see samples for functions and bounds."),
            "samples": samples,
            "states": max(states, 1),
            "transitions": max(vccs, 1),
            "traces_validated_against_impl": replayed,
            "harnesses": len(recs),
            "harnesses_hold": len(oks),
            "covers_satisfied": n_covers,
            "functions_encoded": sorted(funcs),
            "solver_time_s": round(solver_s, 2),
            "symex_time_s": round(symex_s, 2),
            "profiles": profiles,
            "inconclusive": inconclusive,
            "known_findings": [{"key": k, "what": f["what"], "harness": r["harness"]} for k, f, r in known_hits],
            "explanation": "states = SSA program-expression steps summed over harnesses; transitions = verification "
                           "conditions generated by CBMC; traces_validated_against_impl = counterexamples replayed natively.",
            "exhaustive": False,
        },
        "assumptions": sorted(assumptions),
        "wall_s": round(wall, 1),
        "violations": len(violations),
    }
    with open(os.path.join(EVID_DIR, "%s.json" % prop), "w") as fh:
        json.dump(ev, fh, indent=1)


def main(argv):
    import argparse
    ap = argparse.ArgumentParser()
    ap.add_argument("prop")
    ap.add_argument("--tier", default=os.environ.get("VERIF_TIER", "quick"))
    ap.add_argument("--replay")
    ap.add_argument("--only", action="append")
    a = ap.parse_args(argv)
    if os.environ.get("VERIF_TIER"):
        a.tier = os.environ["VERIF_TIER"]
    if a.replay and a.prop == "C01":
        return subprocess.call(["python3-vt", "-m", "ctsym.main", "--replay", a.replay], cwd=VERIF)
    if a.replay:
        return replay_stored(a.replay)
    seed = int(os.environ.get("VERIF_SEED", "0") or 0)
    if a.prop == "C01":
        # the relational engine needs the z3 bindings of the tooling venv
        cmd = ["python3-vt", "-m", "ctsym.main", a.tier]
        return subprocess.call(cmd, cwd=VERIF, env=dict(os.environ, VERIF_SEED=str(seed)))
    return check(a.prop, a.tier, a.only, seed)
