"""K8 profile: scripted word-narrowing of a *copy* of the crate (DESIGN.md section 1,
Appendix A).  Word=u8, WideWord=u16, Limb::BITS=8, Limb::BYTES=1.  Only the arms
written for a literal 64-bit word are replaced; every generic algorithm is left
as it is in the current source.  A missing anchor raises NarrowError -> the run
is inconclusive (never a pass)."""
import os
import re


class NarrowError(Exception):
    pass


def _read(src, rel):
    with open(os.path.join(src, rel)) as fh:
        return fh.read()


def _write(src, rel, s):
    with open(os.path.join(src, rel), "w") as fh:
        fh.write(s)


def sub_exact(src, rel, old, new, count=1):
    s = _read(src, rel)
    n = s.count(old)
    if n < 1 or (count and n != count):
        raise NarrowError("anchor not found (%d matches, want %s) in %s: %r" % (n, count, rel, old[:70]))
    _write(src, rel, s.replace(old, new))


def sub_re(src, rel, pat, new, count=1, flags=re.S):
    s = _read(src, rel)
    s2, n = re.subn(pat, new, s, flags=flags)
    if n < 1 or (count and n != count):
        raise NarrowError("regex anchor not found (%d matches) in %s: %r" % (n, rel, pat[:70]))
    _write(src, rel, s2)


def replace_item(src, rel, header, new_text, indent=""):
    """Replace the item starting at `header` (exact text, at the given indent) up to
    the first line that is exactly indent + '}'."""
    s = _read(src, rel)
    i = s.find(header)
    if i < 0 or s.count(header) != 1:
        raise NarrowError("item header not found/unique in %s: %r" % (rel, header[:70]))
    end_marker = "\n" + indent + "}\n"
    j = s.find(end_marker, i)
    if j < 0:
        raise NarrowError("item end not found in %s: %r" % (rel, header[:70]))
    _write(src, rel, s[:i] + new_text + s[j + len(end_marker):])


def append(src, rel, text):
    with open(os.path.join(src, rel), "a") as fh:
        fh.write("\n// ---- k8 narrowing (derived copy only) ----\n" + text + "\n")


C64 = '#[cfg(target_pointer_width = "64")]\n'


def apply(src):
    # ---- limb.rs: the four definitions
    sub_exact(src, "limb.rs", C64 + "pub type Word = u64;", C64 + "pub type Word = u8;")
    sub_exact(src, "limb.rs", C64 + "pub type WideWord = u128;", C64 + "pub type WideWord = u16;")
    sub_exact(src, "limb.rs", '    #[cfg(target_pointer_width = "64")]\n    pub const BITS: u32 = 64;',
              '    #[cfg(target_pointer_width = "64")]\n    pub const BITS: u32 = 8;')
    sub_exact(src, "limb.rs", '    #[cfg(target_pointer_width = "64")]\n    pub const BYTES: usize = 8;',
              '    #[cfg(target_pointer_width = "64")]\n    pub const BYTES: usize = 1;')
    NARROW_STEPS(src)


def NARROW_STEPS(src):
    # ---- limb/encoding.rs
    sub_exact(src, "limb/encoding.rs", '    #[cfg(target_pointer_width = "64")]\n    type Repr = [u8; 8];',
              '    #[cfg(target_pointer_width = "64")]\n    type Repr = [u8; 1];')
    # ---- limb/from.rs: truncating conversions
    sub_exact(src, "limb/from.rs", "    pub const fn from_u64(n: u64) -> Self {\n        Limb(n)\n    }",
              "    pub const fn from_u64(n: u64) -> Self {\n        Limb(n as Word)\n    }")
    sub_exact(src, "limb/from.rs", "    fn from(n: u16) -> Limb {\n        Limb(n.into())",
              "    fn from(n: u16) -> Limb {\n        Limb(n as Word)")
    sub_exact(src, "limb/from.rs", "    fn from(n: u32) -> Limb {\n        Limb(n.into())",
              "    fn from(n: u32) -> Limb {\n        Limb(n as Word)")
    sub_exact(src, "limb/from.rs", "    fn from(n: u64) -> Limb {\n        Limb(n)",
              "    fn from(n: u64) -> Limb {\n        Limb(n as Word)")
    # ---- limb/rand.rs
    sub_exact(src, "limb/rand.rs", "        Ok(Self(val))", "        Ok(Self(val as crate::Word))")
    # ---- const_choice.rs
    sub_exact(src, "const_choice.rs",
              "    pub(crate) const fn as_u64_mask(&self) -> u64 {\n        self.0\n    }",
              "    pub(crate) const fn as_u64_mask(&self) -> u64 {\n        u64::from_ne_bytes([self.0; 8])\n    }")
    # ---- modular/safegcd.rs: inv_mod2_62 word fetch
    sub_exact(src, "modular/safegcd.rs",
              '        #[cfg(target_pointer_width = "64")]\n        {\n            value[0]\n        }',
              '        #[cfg(target_pointer_width = "64")]\n        {\n            let mut ret = 0u64;\n'
              '            let mut i = 0;\n            while i < 8 && i < value.len() {\n'
              '                ret |= (value[i] as u64) << (8 * i);\n                i += 1;\n            }\n'
              '            ret\n        }')
    # ---- uint/div_limb.rs: reciprocal() := its definition
    replace_item(src, "uint/div_limb.rs",
                 C64 + "pub const fn reciprocal(d: Word) -> Word {",
                 C64 + "pub const fn reciprocal(d: Word) -> Word {\n"
                 "    debug_assert!(d >= (1 << (Word::BITS - 1)));\n"
                 "    ((WideWord::MAX / (d as WideWord)) - (1 << Word::BITS)) as Word\n}\n")
    # ---- uint/from.rs
    replace_item(src, "uint/from.rs",
                 '    #[cfg(target_pointer_width = "64")]\n    pub const fn from_u64(n: u64) -> Self {',
                 '    #[cfg(target_pointer_width = "64")]\n    pub const fn from_u64(n: u64) -> Self {\n'
                 '        assert!(LIMBS >= 8 / Limb::BYTES, "number of limbs too small");\n'
                 "        let mut limbs = [Limb::ZERO; LIMBS];\n        let mut i = 0;\n"
                 "        while i < 8 {\n            limbs[i].0 = (n >> (8 * i)) as Word;\n            i += 1;\n        }\n"
                 "        Self { limbs }\n    }\n", indent="    ")
    sub_exact(src, "uint/from.rs",
              "    fn from(n: U64) -> u64 {\n        n.limbs[0].into()\n    }",
              "    fn from(n: U64) -> u64 {\n        let mut r = 0u64;\n        let mut i = 0;\n"
              "        while i < 8 {\n            r |= (n.limbs[i].0 as u64) << (8 * i);\n            i += 1;\n        }\n        r\n    }")
    # ---- uint/rand.rs: the RNG word fetch truncates to Word
    sub_exact(src, "uint/rand.rs",
              '    #[cfg(target_pointer_width = "64")]\n    let mut next_word = || rng.try_next_u64();',
              '    #[cfg(target_pointer_width = "64")]\n    let mut next_word = || rng.try_next_u64().map(|w| w as crate::Word);')
    # ---- int/types.rs: I64.. := Int<bits/8>
    s = _read(src, "int/types.rs")
    pat = re.compile(r'(#\[cfg\(target_pointer_width = "64"\)\]\n/// Signed bit integer\.\npub type I(\d+) = Int<)(\d+)(>;)')
    s2, n = pat.subn(lambda m: m.group(1) + str(int(m.group(2)) // 8) + m.group(4), s)
    if n < 2:
        raise NarrowError("int/types.rs aliases not found")
    _write(src, "int/types.rs", s2)
    # ---- uint.rs: small aliases (1..7 limbs) with Encoding / PrecomputeInverter, and even concat/split
    append(src, "uint.rs",
           'impl_uint_aliases! {\n    (U8, 8, "8-bit"),\n    (U16, 16, "16-bit"),\n    (U24, 24, "24-bit"),\n'
           '    (U32, 32, "32-bit"),\n    (U40, 40, "40-bit"),\n    (U48, 48, "48-bit"),\n    (U56, 56, "56-bit")\n}\n'
           "impl_uint_concat_split_even! {\n    U16,\n    U32,\n    U48,\n    U64,\n}\n")


def karatsuba_small(src):
    """k8k profile: the boxed Karatsuba thresholds are lowered so that the recursive bodies of
    karatsuba_mul_limbs / karatsuba_square_limbs (which the real thresholds 32 / 24 put out of a
    bounded checker's reach) run at 2..6 limbs.  Only the two constants change; the code is /repo's."""
    sub_exact(src, "uint/mul/karatsuba.rs", "pub const KARATSUBA_MIN_STARTING_LIMBS: usize = 32;",
              "pub const KARATSUBA_MIN_STARTING_LIMBS: usize = 2;")
    sub_exact(src, "uint/mul/karatsuba.rs", "pub const KARATSUBA_MAX_REDUCE_LIMBS: usize = 24;",
              "pub const KARATSUBA_MAX_REDUCE_LIMBS: usize = 1;")
    # the radix encoder switches to "divide by the largest power of the radix that fits LARGE limbs and
    # recurse" above this many limbs: lowered so that the recursion runs at 3..5 limbs
    sub_exact(src, "uint/encoding.rs", "const RADIX_ENCODING_LIMBS_LARGE: usize = 32;",
              "const RADIX_ENCODING_LIMBS_LARGE: usize = 2;")
