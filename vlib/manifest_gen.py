"""Regenerates MANIFEST.json from the table below (run: python3 -m vlib.manifest_gen)."""
import json
import os
import sys

VERIF = os.path.dirname(os.path.dirname(os.path.abspath(__file__)))


from .manifest_table import CHECKS, NOT_APPLICABLE


def load_tables():
    pass


def build():
    load_tables()
    props = [json.loads(l)["id"] for l in open(os.path.join(VERIF, "properties.jsonl"))]
    checks = []
    for pid in props:
        if pid not in CHECKS:
            continue
        c = CHECKS[pid]
        checks.append({
            "property_id": pid,
            "quick_cmd": "./check %s --tier quick" % pid,
            "thorough_cmd": "./check %s --tier thorough" % pid,
            "evidence_file": "/verif/evidence/%s.json" % pid,
            "replay_cmd_template": "./check %s --replay {path}" % pid,
            "engine": c.get("engine", "kani"),
            "level_claimed": {"category": c["category"], "text": c["text"], "design_ref": c["ref"]},
            "level_note": c["note"],
            "technique": c["technique"],
        })
    na = [{"property_id": p, "reason": NOT_APPLICABLE.get(p, "check not built yet in this round (see DESIGN.md section 8)")}
          for p in props if p not in CHECKS]
    man = {
        "version": 1,
        "setup_cmd": "./setup.sh",
        "hooks": {
            "guard": "none",
            "enable": "no source hooks: every check copies /repo's working tree to a scratch dir and appends "
                      "#[cfg(kani)] harness modules to the copy (DESIGN.md section 1)",
            "baseline_off_cmd": "cd /repo && cargo test --workspace --no-fail-fast --offline",
            "source_commits": [],
            "add_only": True,
        },
        "engines": [
            {"name": "kani", "path": "/verif/vlib", "serves_properties": [p for p in props if p in CHECKS and CHECKS[p].get("engine", "kani") == "kani"],
             "kind_free_text": "bounded model checking (Kani 0.68 / CBMC 6.11 / CaDiCaL) of in-crate harnesses injected into a derived copy of /repo's working tree; 64-bit-word and scripted 8-bit-word builds; native replay of counterexamples"},
            {"name": "ctsym", "path": "/verif/ctsym", "serves_properties": [p for p in props if p in CHECKS and CHECKS[p].get("engine") == "ctsym"],
             "kind_free_text": "relational (2-safety) symbolic execution of rustc's optimised LLVM IR with z3; leak points = branch conditions, addresses, division operands"},
        ],
        "checks": checks,
        "not_applicable": na,
        "notes": "Solver-based checking only. Exit codes of ./check: 0 holds within bounds, 1 replayed VIOLATION, 2 inconclusive (timeout/OOM/unreachable vacuity witness/non-reproducing counterexample).",
    }
    return man


if __name__ == "__main__":
    man = build()
    with open(os.path.join(VERIF, "MANIFEST.json"), "w") as fh:
        json.dump(man, fh, indent=1)
    print("claimed:", [c["property_id"] for c in man["checks"]])
    print("not_applicable:", [c["property_id"] for c in man["not_applicable"]])
