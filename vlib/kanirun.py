"""Run `cargo kani` on a derived copy and parse its JSON export."""
import json
import os
import re
import resource
import subprocess
import time

FEATURES = {
    "k64": "alloc,rand_core,der,rlp,hybrid-array,serde",
    "k64r": "alloc,rand_core,der,rlp,hybrid-array,serde",
    "k8": "alloc,rand_core",
    "k8k": "alloc,rand_core",
}
MEM_LIMIT = int(os.environ.get("VERIF_MEM_GB", "10")) * (1 << 30)


def _limits():
    os.setsid()


def _watchdog(pgid, stop, log_path):
    """Kill any cbmc of our process group whose RSS exceeds MEM_LIMIT (an OOM is
    reported as inconclusive by the parser, never as a pass)."""
    page = os.sysconf("SC_PAGE_SIZE")
    while not stop.wait(5.0):
        try:
            for pid in os.listdir("/proc"):
                if not pid.isdigit():
                    continue
                try:
                    with open("/proc/%s/stat" % pid) as fh:
                        st = fh.read()
                    comm = st[st.index("(") + 1:st.rindex(")")]
                    if "cbmc" not in comm:
                        continue
                    rest = st[st.rindex(")") + 2:].split()
                    pg = int(rest[2])
                    rss = int(rest[21]) * page
                    if pg == pgid and rss > MEM_LIMIT:
                        os.kill(int(pid), 9)
                        with open(log_path, "a") as lf:
                            lf.write("\n[watchdog] killed cbmc pid %s rss %.1f GB\n" % (pid, rss / 2**30))
                except (OSError, ValueError, IndexError):
                    continue
        except OSError:
            pass


def base_env(profile):
    env = dict(os.environ)
    env["CARGO_NET_OFFLINE"] = "true"
    env.pop("RUSTFLAGS", None)
    env.pop("RUSTUP_TOOLCHAIN", None)
    if profile == "k64r":
        env["RUSTFLAGS"] = "-C debug-assertions=off"
    return env


def kani_cmd(profile, harness_names, jobs, timeout_s, json_path, target_dir, extra=None):
    cmd = ["cargo", "kani", "--no-default-features", "--features", FEATURES[profile]]
    for h in harness_names:
        cmd += ["--harness", h]
    cmd += ["--exact", "--no-assertion-reach-checks"]
    cmd += ["-j", str(jobs), "--output-format", "terse", "-Z", "unstable-options",
            "-Z", "stubbing",
            "--harness-timeout", "%ds" % timeout_s, "--export-json", json_path,
            "--target-dir", target_dir]
    if profile == "k64r":
        cmd += ["--no-overflow-checks"]
    if extra:
        cmd += extra
    # CBMC keeps byte arrays (heap buffers of Vec / Arc / Box) field-sensitive only up to 64
    # elements by default; above that the limb counts stored in boxed values stop being constant-
    # propagated and every limb loop unwinds to the bound.  Analysis precision only (not semantics).
    fs = os.environ.get("VERIF_FS_ARRAY", "1024")
    if fs != "0":
        cmd += ["--cbmc-args", "--max-field-sensitivity-array-size", fs]
    return cmd


def run(top, profile, harnesses, jobs, timeout_s, log_path, extra=None):
    """harnesses: list of registry.Harness.  Returns (records, build_ok, raw_log_tail, wall)."""
    crate = os.path.join(top, "crate")
    target = os.path.join(top, "target")
    json_path = os.path.join(top, "out-%s.json" % profile)
    if os.path.exists(json_path):
        os.unlink(json_path)
    names = ["%s::%s" % (fqmod(h), h.name) for h in harnesses]
    cmd = kani_cmd(profile, names, jobs, timeout_s, json_path, target, extra)
    t0 = time.time()
    with open(log_path, "w") as log:
        log.write("$ " + " ".join(cmd) + "\n")
        log.flush()
        # overall guard: every harness may use the cap, in ceil(n/jobs) waves, plus build
        waves = (len(harnesses) + jobs - 1) // max(jobs, 1)
        overall = 600 + timeout_s * (waves + 1)
        try:
            p = subprocess.Popen(cmd, cwd=crate, env=base_env(profile), stdout=log,
                                 stderr=subprocess.STDOUT, preexec_fn=_limits)
            import threading
            stop = threading.Event()
            wd = threading.Thread(target=_watchdog, args=(p.pid, stop, log_path), daemon=True)
            wd.start()
            try:
                rc = p.wait(timeout=overall)
            except subprocess.TimeoutExpired:
                try:
                    os.killpg(p.pid, 9)
                except Exception:
                    p.kill()
                rc = -9
            finally:
                stop.set()
        except Exception as e:  # pragma: no cover
            log.write("runner exception: %r\n" % (e,))
            rc = -1
    wall = time.time() - t0
    data = None
    if os.path.exists(json_path):
        try:
            with open(json_path) as fh:
                data = json.load(fh)
        except Exception:
            data = None
    with open(log_path) as fh:
        text = fh.read()
    records = parse(data, text, harnesses, timeout_s)
    build_ok = data is not None or "Checking harness" in text
    return records, build_ok, text[-4000:], wall, rc


# Which module path a harness lives under inside the crate (parent chain).
def fqmod(h):
    from .derive import INJECT_PARENTS, module_dir_for
    base = os.path.basename(h.file)[:-3]
    key = base.split("__", 1)[0] if "__" in base else "lib"
    parent_rel = INJECT_PARENTS[key]
    d = module_dir_for(parent_rel)
    parts = [p for p in d.split("/") if p]
    return "::".join(parts + ["__verif_" + base])


_INTERESTING_FAIL = ("Failure", "Undetermined", "Unreachable")


def parse(data, text, harnesses, timeout_s):
    """One record per requested harness."""
    by_id = {}
    stats = {}
    props = {}
    if data:
        for r in data.get("verification_results", {}).get("results", []):
            by_id[r["harness_id"]] = r
        for c in data.get("cbmc", []):
            stats[c["harness_id"]] = c.get("cbmc_stats", {})
        for p in data.get("property_details", []):
            props[p["harness_id"]] = p.get("property_details", {})
    recs = []
    for h in harnesses:
        hid = "%s::%s" % (fqmod(h), h.name)
        r = by_id.get(hid)
        rec = {
            "harness": h.name, "id": hid, "profile": h.profile, "props": h.props,
            "funcs": h.funcs, "bound": h.bound, "free_bits": h.free_bits,
            "expect": h.expect, "should_panic": h.should_panic,
            "stubs": h.stubs, "assumes": h.assumes, "must_panic": h.must_panic, "may_panic": h.may_panic,
        }
        if r is None:
            # not in JSON: timed out, crashed, or never ran
            m = re.search(r"%s[^\n]*timed out|TIMEOUT[^\n]*%s" % (re.escape(h.name), re.escape(h.name)), text)
            rec.update(status="timeout" if m else "missing", duration_s=None, failed=[], covers=[],
                       n_checks=0, stats={})
            recs.append(rec)
            continue
        checks = r.get("checks", [])
        failed = [c for c in checks if c.get("status") == "Failure"]
        undet = [c for c in checks if c.get("status") == "Undetermined"]
        covers = [c for c in checks if c.get("category") == "cover"]
        st = r.get("status")
        status = {"Success": "pass", "Failure": "fail"}.get(st, str(st).lower())
        if status == "fail" and not failed:
            # OOM / solver error / timeout show up as Failure without failed checks
            low = json.dumps(r)[:2000].lower()
            status = "error"
        rec.update(
            status=status,
            duration_s=round(r.get("duration_ms", 0) / 1000.0, 2),
            failed=[{"function": c.get("function"), "description": c.get("description"),
                     "location": "%s:%s" % (c.get("location", {}).get("file"), c.get("location", {}).get("line")),
                     "category": c.get("category")} for c in failed],
            undetermined=len(undet),
            covers=[{"description": c.get("description"), "status": c.get("status"),
                     "line": c.get("location", {}).get("line")} for c in covers],
            n_checks=len(checks),
            stats=stats.get(hid, {}),
            prop_counts=props.get(hid, {}),
        )
        recs.append(rec)
    return recs
