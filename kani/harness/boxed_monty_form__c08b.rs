//! C08 (boxed part) — BoxedMontyForm / BoxedMontyMultiplier / almost_montgomery_mul.  k8.
//! Child of `modular::boxed_monty_form` (private fields and `BoxedMontyMultiplier::new`).
//! Parameter derivation with a *symbolic* boxed modulus runs variable-time boxed division
//! (symbolic loop bounds) and does not finish; it is checked on concrete moduli only, and the
//! arithmetic harnesses build the parameter struct from the (separately checked) fixed-width one.
use super::mul::{almost_montgomery_mul, BoxedMontyMultiplier};
use super::BoxedMontyParams;
use crate::__verif_common::boxed::*;
use crate::__verif_common::*;
use crate::modular::{MontyForm, MontyParams};
use crate::{BoxedUint, Limb, Odd, Uint, Word};

fn redc2(t: u64, m: u64, ninv16: u64) -> u64 {
    let u = ((t & 0xffff) * ninv16) & 0xffff;
    let s = (t + u * m) >> 16;
    if s >= m { s - m } else { s }
}

//@ prop=C08,C15,C11 tier=quick profile=k8 funcs="BoxedMontyMultiplier::new,mul,square,mul_assign,square_assign,almost_montgomery_mul,conditional_sub,add_mul_carry,add_mul_carry_and_shift" bound="u8 words, boxed 2 limbs: m=[S(2)|1, S(2)^sign] >= 3, x,y with limbs S(1), < m: fully reduced result = textbook REDC(x*y), R = 2^16" free_bits=15 core=C15
#[kani::proof]
#[kani::unwind(8)]
fn c08_k8_boxed_multiplier_2() {
    let m = Uint::<2>::new([Limb(shaped_word(2) | 1), Limb(shaped_signed_top(2))]);
    let mm = to_u64(&m);
    kani::assume(mm >= 3);
    let ninv16: u16 = kani::any();
    kani::assume(ninv16.wrapping_mul(mm as u16).wrapping_add(1) == 0);
    let x: Uint<2> = shaped(1);
    let y: Uint<2> = shaped(1);
    let (xv, yv) = (to_u64(&x), to_u64(&y));
    kani::assume(xv < mm && yv < mm);
    let bm = boxed_from(&words_of(&m));
    let (bx, by) = (boxed_from(&words_of(&x)), boxed_from(&words_of(&y)));
    let mut mult = BoxedMontyMultiplier::new(&bm, Limb(ninv16 as Word));
    let p = mult.mul(&bx, &by);
    let pv = (bword(&p, 0) as u64) | ((bword(&p, 1) as u64) << 8);
    assert!(p.nlimbs() == 2 && pv == redc2(xv * yv, mm, ninv16 as u64));
    let s = mult.square(&bx);
    let sv = (bword(&s, 0) as u64) | ((bword(&s, 1) as u64) << 8);
    assert!(sv == redc2(xv * xv, mm, ninv16 as u64));
    let mut z = bx.clone();
    mult.mul_assign(&mut z, &by);
    assert!(bword(&z, 0) == bword(&p, 0) && bword(&z, 1) == bword(&p, 1));
    let mut z2 = bx.clone();
    mult.square_assign(&mut z2);
    assert!(bword(&z2, 0) == bword(&s, 0) && bword(&z2, 1) == bword(&s, 1));
    kani::cover!(mm > 0xff00 && xv > 0xff00 && yv > 0xff00);
    kani::cover!(mm == 0xffff && xv == 0xfffe && yv == 0xfffe);
    kani::cover!(mm < 0x100);
    core::mem::forget(mult);
    core::mem::forget((bm, bx, by, p, s, z, z2));
}

//@ prop=C08,C11 tier=quick profile=k8 funcs="almost_montgomery_mul" bound="u8 words, 2 limbs: m=[S(2)|1, S(2)^sign] >= 3, arbitrary (not necessarily reduced) x,y with limbs S(1): the 'almost' contract z = (x*y + u*m)/R - s*m, s in {0,1}" free_bits=16
#[kani::proof]
#[kani::unwind(8)]
fn c08_k8_almost_montgomery_mul_2() {
    let m = Uint::<2>::new([Limb(shaped_word(2) | 1), Limb(shaped_signed_top(2))]);
    let mm = to_u64(&m);
    kani::assume(mm >= 3);
    let ninv16: u16 = kani::any();
    kani::assume(ninv16.wrapping_mul(mm as u16).wrapping_add(1) == 0);
    let x: Uint<2> = shaped(1);
    let y: Uint<2> = shaped(1);
    let (xv, yv) = (to_u64(&x), to_u64(&y));
    let mut z = [Limb::ZERO; 2];
    almost_montgomery_mul(&mut z, x.as_limbs(), y.as_limbs(), m.as_limbs(), Limb(ninv16 as Word));
    let zv = (z[0].0 as u64) | ((z[1].0 as u64) << 8);
    // z = (x*y + u*m)/R - s*m for the unique u < R making the sum divisible by R, s in {0,1}
    let t = xv * yv;
    let u = ((t & 0xffff) * ninv16 as u64) & 0xffff;
    let full = (t + u * mm) >> 16;
    assert!(zv == full || zv + mm == full);
    kani::cover!(zv + mm == full);
    kani::cover!(xv >= mm && yv >= mm);
}

//@ prop=C08,C15,C11 tier=thorough profile=k8 funcs="BoxedMontyParams::new,BoxedMontyParams::new_vartime,BoxedMontyForm::new,retrieve,one" bound="u8 words, boxed 2 limbs, CONCRETE moduli {3, 0x5555, 0xffff}: both constructors identical and equal to the fixed-width MontyParams (concrete execution decided by the solver)"
#[kani::proof]
#[kani::unwind(40)]
fn c08_k8_boxed_params_concrete_moduli() {
    let moduli: [u16; 3] = [3, 0x5555, 0xffff];
    let mut i = 0;
    while i < 3 {
        let mw = [(moduli[i] & 0xff) as Word, (moduli[i] >> 8) as Word];
        let m = Uint::<2>::new([Limb(mw[0]), Limb(mw[1])]);
        let fp = MontyParams::new(Odd::new(m).unwrap());
        let a = BoxedMontyParams::new(Odd::new(boxed_from(&mw)).unwrap());
        let b = BoxedMontyParams::new_vartime(Odd::new(boxed_from(&mw)).unwrap());
        assert!(a == b);
        let fone = MontyForm::one(fp);
        assert!(words_eq(&bwords::<2>(&a.one), &words_of(fone.as_montgomery())));
        let fr2 = MontyForm::new(fone.as_montgomery(), fp);
        assert!(words_eq(&bwords::<2>(&a.r2), &words_of(fr2.as_montgomery())));
        let fr3 = MontyForm::new(fr2.as_montgomery(), fp);
        assert!(words_eq(&bwords::<2>(&a.r3), &words_of(fr3.as_montgomery())));
        assert!(a.mod_neg_inv.0.wrapping_mul(mw[0]).wrapping_add(1) == 0);
        assert!(a.mod_leading_zeros == m.leading_zeros().min(7));
        core::mem::forget((a, b));
        i += 1;
    }
}
