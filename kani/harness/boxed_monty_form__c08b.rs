//! C08 (boxed part) — BoxedMontyForm / BoxedMontyMultiplier / almost_montgomery_mul.  k8.
//! Child of `modular::boxed_monty_form` (private fields and `BoxedMontyMultiplier::new`).
//! Parameter derivation with a *symbolic* boxed modulus runs variable-time boxed division
//! (symbolic loop bounds) and does not finish; it is checked on concrete moduli only, and the
//! arithmetic harnesses build the parameter struct from the (separately checked) fixed-width one.
use super::mul::{almost_montgomery_mul, BoxedMontyMultiplier};
use super::BoxedMontyParams;
use crate::__verif_common::boxed::*;
use crate::__verif_common::*;
use crate::modular::{MontyForm, MontyParams};
use crate::{BoxedUint, Limb, Odd, Uint, Word};

fn redc2(t: u64, m: u64, ninv16: u64) -> u64 {
    let u = ((t & 0xffff) * ninv16) & 0xffff;
    let s = (t + u * m) >> 16;
    if s >= m { s - m } else { s }
}

//@ prop=C08,C15,C11 tier=quick profile=k8 funcs="BoxedMontyMultiplier::new,mul,square,mul_assign,square_assign,almost_montgomery_mul,conditional_sub,add_mul_carry,add_mul_carry_and_shift" bound="u8 words, boxed 2 limbs: m=[S(2)|1, S(2)^sign] >= 3, x,y with limbs S(1), < m: fully reduced result = textbook REDC(x*y), R = 2^16" free_bits=15 core=C15
#[kani::proof]
#[kani::unwind(8)]
fn c08_k8_boxed_multiplier_2() {
    let m = Uint::<2>::new([Limb(shaped_word(2) | 1), Limb(shaped_signed_top(2))]);
    let mm = to_u64(&m);
    kani::assume(mm >= 3);
    let ninv16: u16 = kani::any();
    kani::assume(ninv16.wrapping_mul(mm as u16).wrapping_add(1) == 0);
    let x: Uint<2> = shaped(1);
    let y: Uint<2> = shaped(1);
    let (xv, yv) = (to_u64(&x), to_u64(&y));
    kani::assume(xv < mm && yv < mm);
    let bm = boxed_from(&words_of(&m));
    let (bx, by) = (boxed_from(&words_of(&x)), boxed_from(&words_of(&y)));
    let mut mult = BoxedMontyMultiplier::new(&bm, Limb(ninv16 as Word));
    let p = mult.mul(&bx, &by);
    let pv = (bword(&p, 0) as u64) | ((bword(&p, 1) as u64) << 8);
    assert!(p.nlimbs() == 2 && pv == redc2(xv * yv, mm, ninv16 as u64));
    let s = mult.square(&bx);
    let sv = (bword(&s, 0) as u64) | ((bword(&s, 1) as u64) << 8);
    assert!(sv == redc2(xv * xv, mm, ninv16 as u64));
    let mut z = bx.clone();
    mult.mul_assign(&mut z, &by);
    assert!(bword(&z, 0) == bword(&p, 0) && bword(&z, 1) == bword(&p, 1));
    let mut z2 = bx.clone();
    mult.square_assign(&mut z2);
    assert!(bword(&z2, 0) == bword(&s, 0) && bword(&z2, 1) == bword(&s, 1));
    kani::cover!(mm > 0xff00 && xv > 0xff00 && yv > 0xff00);
    kani::cover!(mm == 0xffff && xv == 0xfffe && yv == 0xfffe);
    kani::cover!(mm < 0x100);
    core::mem::forget(mult);
    core::mem::forget((bm, bx, by, p, s, z, z2));
}

//@ prop=C08,C11 tier=quick profile=k8 funcs="almost_montgomery_mul" bound="u8 words, 2 limbs: m=[S(2)|1, S(2)^sign] >= 3, arbitrary (not necessarily reduced) x,y with limbs S(1): the 'almost' contract z = (x*y + u*m)/R - s*m, s in {0,1}" free_bits=16
#[kani::proof]
#[kani::unwind(8)]
fn c08_k8_almost_montgomery_mul_2() {
    let m = Uint::<2>::new([Limb(shaped_word(2) | 1), Limb(shaped_signed_top(2))]);
    let mm = to_u64(&m);
    kani::assume(mm >= 3);
    let ninv16: u16 = kani::any();
    kani::assume(ninv16.wrapping_mul(mm as u16).wrapping_add(1) == 0);
    let x: Uint<2> = shaped(1);
    let y: Uint<2> = shaped(1);
    let (xv, yv) = (to_u64(&x), to_u64(&y));
    let mut z = [Limb::ZERO; 2];
    almost_montgomery_mul(&mut z, x.as_limbs(), y.as_limbs(), m.as_limbs(), Limb(ninv16 as Word));
    let zv = (z[0].0 as u64) | ((z[1].0 as u64) << 8);
    // z = (x*y + u*m)/R - s*m for the unique u < R making the sum divisible by R, s in {0,1}
    let t = xv * yv;
    let u = ((t & 0xffff) * ninv16 as u64) & 0xffff;
    let full = (t + u * mm) >> 16;
    assert!(zv == full || zv + mm == full);
    kani::cover!(zv + mm == full);
    kani::cover!(xv >= mm && yv >= mm);
}

//@ prop=C08,C15,C11 tier=thorough profile=k8 funcs="BoxedMontyParams::new,BoxedMontyParams::new_vartime,BoxedMontyForm::new,retrieve,one" bound="u8 words, boxed 2 limbs, CONCRETE moduli {3, 0x5555, 0xffff}: both constructors identical and equal to the fixed-width MontyParams (concrete execution decided by the solver)"
#[kani::proof]
#[kani::unwind(40)]
fn c08_k8_boxed_params_concrete_moduli() {
    let moduli: [u16; 3] = [3, 0x5555, 0xffff];
    let mut i = 0;
    while i < 3 {
        let mw = [(moduli[i] & 0xff) as Word, (moduli[i] >> 8) as Word];
        let m = Uint::<2>::new([Limb(mw[0]), Limb(mw[1])]);
        let fp = MontyParams::new(Odd::new(m).unwrap());
        let a = BoxedMontyParams::new(Odd::new(boxed_from(&mw)).unwrap());
        let b = BoxedMontyParams::new_vartime(Odd::new(boxed_from(&mw)).unwrap());
        assert!(a == b);
        let fone = MontyForm::one(fp);
        assert!(words_eq(&bwords::<2>(&a.one), &words_of(fone.as_montgomery())));
        let fr2 = MontyForm::new(fone.as_montgomery(), fp);
        assert!(words_eq(&bwords::<2>(&a.r2), &words_of(fr2.as_montgomery())));
        let fr3 = MontyForm::new(fr2.as_montgomery(), fp);
        assert!(words_eq(&bwords::<2>(&a.r3), &words_of(fr3.as_montgomery())));
        assert!(a.mod_neg_inv.0.wrapping_mul(mw[0]).wrapping_add(1) == 0);
        assert!(a.mod_leading_zeros == m.leading_zeros().min(7));
        core::mem::forget((a, b));
        i += 1;
    }
}

// ---------------------------------------------------------------- BoxedMontyForm linear wrappers (k64: real words)
fn params_k64<const L: usize>(m: &[Word; L]) -> BoxedMontyParams {
    // add / sub / neg / double / div_by_2 read only the modulus; the other fields are arbitrary
    let arb: [Word; L] = kani::any();
    BoxedMontyParams {
        modulus: Odd(boxed_from(m)),
        one: boxed_from(&arb),
        r2: boxed_from(&arb),
        r3: boxed_from(&arb),
        mod_neg_inv: Limb(kani::any()),
        mod_leading_zeros: 0,
    }
}

macro_rules! boxed_monty_linear {
    ($name:ident, $L:expr) => {
        #[kani::proof]
        #[kani::unwind(8)]
        fn $name() {
            const L: usize = $L;
            let m: [Word; L] = kani::any();
            let (x, y): ([Word; L], [Word; L]) = (kani::any(), kani::any());
            kani::assume(m[0] & 1 == 1 && ref_lt(&x, &m) && ref_lt(&y, &m));
            let params = alloc::sync::Arc::new(params_k64(&m));
            let a = super::BoxedMontyForm { montgomery_form: boxed_from(&x), params: params.clone() };
            let b = super::BoxedMontyForm { montgomery_form: boxed_from(&y), params: params.clone() };
            // reference: x + y mod m, x - y mod m on the stored representatives (linear maps commute with the Montgomery map)
            let (s, c) = ref_add(&x, &y, 0);
            let (s_m, bo) = ref_sub(&s, &m, 0);
            let want_add = if c == 1 || bo == 0 { s_m } else { s };
            let (d, bd) = ref_sub(&x, &y, 0);
            let (d_p, _) = ref_add(&d, &m, 0);
            let want_sub = if bd != 0 { d_p } else { d };
            let which: u8 = kani::any();
            match which {
                0 => {
                    let r = a.add(&b);
                    assert!(words_eq(&bwords::<L>(r.as_montgomery()), &want_add));
                    let r2 = &a + &b;
                    assert!(words_eq(&bwords::<L>(r2.as_montgomery()), &want_add));
                    core::mem::forget((r, r2));
                }
                1 => {
                    let r = a.sub(&b);
                    assert!(words_eq(&bwords::<L>(r.as_montgomery()), &want_sub));
                    let r2 = &a - &b;
                    assert!(words_eq(&bwords::<L>(r2.as_montgomery()), &want_sub));
                    core::mem::forget((r, r2));
                }
                2 => {
                    let n = a.neg();
                    let (nm, _) = ref_sub(&m, &x, 0);
                    let want = if is_zero_words(&x) { x } else { nm };
                    assert!(words_eq(&bwords::<L>(n.as_montgomery()), &want));
                    core::mem::forget(n);
                }
                3 => {
                    let dbl = a.double();
                    let (s2, c2) = ref_add(&x, &x, 0);
                    let (s2m, b2) = ref_sub(&s2, &m, 0);
                    let want = if c2 == 1 || b2 == 0 { s2m } else { s2 };
                    assert!(words_eq(&bwords::<L>(dbl.as_montgomery()), &want));
                    core::mem::forget(dbl);
                }
                _ => {
                    // h = x/2 mod m: the unique h < m with 2h = x or 2h = x + m
                    let h = a.div_by_2();
                    let hw = bwords::<L>(h.as_montgomery());
                    assert!(ref_lt(&hw, &m));
                    let (h2, ch) = ref_add(&hw, &hw, 0);
                    let (xm, cx) = ref_add(&x, &m, 0);
                    assert!((ch == 0 && words_eq(&h2, &x)) || (ch == cx && words_eq(&h2, &xm)));
                    let mut g = super::BoxedMontyForm { montgomery_form: boxed_from(&x), params: params.clone() };
                    g.div_by_2_assign();
                    assert!(words_eq(&bwords::<L>(g.as_montgomery()), &hw));
                    core::mem::forget((h, g));
                }
            }
            kani::cover!(which == 0 && c == 1);
            kani::cover!(which == 1 && bd != 0);
            kani::cover!(which == 4 && x[0] & 1 == 1);
            core::mem::forget((a, b, params));
        }
    };
}
//@ name=c08_boxed_monty_linear_1 prop=C08,C07,C15,C11 tier=quick profile=k64 funcs="BoxedMontyForm::add,sub,neg,double,div_by_2,div_by_2_assign,Add/Sub for &BoxedMontyForm" bound="real u64 words, boxed 1 limb: every odd modulus, every pair of stored values below it" free_bits=200
boxed_monty_linear!(c08_boxed_monty_linear_1, 1);
//@ name=c08_boxed_monty_linear_2 prop=C08,C07,C15,C11 tier=quick profile=k64 funcs="BoxedMontyForm::add,sub,neg,double,div_by_2,div_by_2_assign,Add/Sub for &BoxedMontyForm" bound="real u64 words, boxed 2 limbs: every odd modulus, every pair of stored values below it" free_bits=392
boxed_monty_linear!(c08_boxed_monty_linear_2, 2);

// ---------------------------------------------------------------- BoxedMontyForm products through the public wrappers (k8)
fn params_k8_2(m: &Uint<2>, ninv16: u16) -> BoxedMontyParams {
    // mul / square / lincomb read modulus, mod_neg_inv and the clamped leading-zero count only
    let lz = m.leading_zeros();
    BoxedMontyParams {
        modulus: Odd(boxed_from(&words_of(m))),
        one: boxed_from(&[0, 0]),
        r2: boxed_from(&[0, 0]),
        r3: boxed_from(&[0, 0]),
        mod_neg_inv: Limb(ninv16 as Word),
        mod_leading_zeros: if lz < 7 { lz } else { 7 },
    }
}

macro_rules! boxed_form_products {
    ($name:ident, $W:expr) => {
        #[kani::proof]
        #[kani::unwind(8)]
        fn $name() {
            let m = Uint::<2>::new([Limb(shaped_word(2) | 1), Limb(shaped_signed_top(2))]);
            let mm = to_u64(&m);
            kani::assume(mm >= 3);
            let ninv16: u16 = kani::any();
            kani::assume(ninv16.wrapping_mul(mm as u16).wrapping_add(1) == 0);
            let x: Uint<2> = shaped(1);
            let y: Uint<2> = shaped(1);
            let (xv, yv) = (to_u64(&x), to_u64(&y));
            kani::assume(xv < mm && yv < mm);
            let params = alloc::sync::Arc::new(params_k8_2(&m, ninv16));
            let a = super::BoxedMontyForm { montgomery_form: boxed_from(&words_of(&x)), params: params.clone() };
            let b = super::BoxedMontyForm { montgomery_form: boxed_from(&words_of(&y)), params: params.clone() };
            let val = |f: &super::BoxedMontyForm| (bword(f.as_montgomery(), 0) as u64) | ((bword(f.as_montgomery(), 1) as u64) << 8);
            let pxy = redc2(xv * yv, mm, ninv16 as u64);
            let pxx = redc2(xv * xv, mm, ninv16 as u64);
            let which: u8 = $W;
            kani::assume(which != 2 || mm >> 15 == 1); // lincomb: window size fixed (no leading zero bits)
            match which {
                0 => {
                    let p = a.mul(&b);
                    let q = &a * &b;
                    assert!(val(&p) == pxy && val(&q) == pxy);
                    core::mem::forget((p, q));
                }
                1 => {
                    let s = a.square();
                    assert!(val(&s) == pxx);
                    core::mem::forget(s);
                }
                _ => {
                    let l = super::BoxedMontyForm::lincomb_vartime(&[(&a, &b)]);
                    assert!(val(&l) == pxy);
                    core::mem::forget(l);
                }
            }
            kani::cover!(pxy + pxx >= mm || which == 2);
            kani::cover!(mm > 0xff00 && xv > 0xff00);
            core::mem::forget((a, b, params));
        }
    };
}
//@ name=c08_k8_boxed_form_mul_2 prop=C08,C09,C15,C11 tier=quick profile=k8 funcs="BoxedMontyForm::mul,Mul for &BoxedMontyForm" bound="u8 words, boxed 2 limbs: m=[S(2)|1, S(2)^sign] >= 3, stored values with limbs S(1), < m: equal to the textbook REDC result, canonical" free_bits=21
boxed_form_products!(c08_k8_boxed_form_mul_2, 0);
//@ name=c08_k8_boxed_form_square_2 prop=C08,C09,C15,C11 tier=quick profile=k8 funcs="BoxedMontyForm::square" bound="u8 words, boxed 2 limbs: m=[S(2)|1, S(2)^sign] >= 3, stored values with limbs S(1), < m: equal to the textbook REDC result, canonical" free_bits=21
boxed_form_products!(c08_k8_boxed_form_square_2, 1);
// BoxedMontyForm::lincomb_vartime (lincomb_boxed_monty_form) does not finish within 600 s even for one term and a
// fixed window size; the shared macro body is covered through the fixed-width MontyForm (monty_form__c09l.rs).
