//! C16 (formatting part) — Display / LowerHex / UpperHex / Binary of Limb, Uint, Int, NonZero, Odd,
//! Wrapping written through core::fmt into a fixed buffer: positional (digit i is nibble/bit i of the
//! value), fixed width with leading zeros, upper/lower case.  One format call per harness with an exact
//! unwind bound: core::fmt is expensive for CBMC (two limbs, the `#` flag and Binary did not finish in 600 s).
use crate::__verif_common::*;
use crate::{Int, Limb, NonZero, Uint, Word, Wrapping};
use core::fmt::Write;

struct Sink {
    buf: [u8; 160],
    len: usize,
}
impl Write for Sink {
    fn write_str(&mut self, s: &str) -> core::fmt::Result {
        let b = s.as_bytes();
        if self.len + b.len() > 160 {
            return Err(core::fmt::Error);
        }
        let mut i = 0;
        while i < b.len() {
            self.buf[self.len + i] = b[i];
            i += 1;
        }
        self.len += b.len();
        Ok(())
    }
}
fn sink() -> Sink {
    Sink { buf: [0; 160], len: 0 }
}
fn hexd(n: u8, upper: bool) -> u8 {
    if n < 10 { b'0' + n } else if upper { b'A' + n - 10 } else { b'a' + n - 10 }
}

macro_rules! fmt_limb {
    ($name:ident, $fmt:expr, $upper:expr, $prefix:expr) => {
        #[kani::proof]
        #[kani::unwind(20)]
        fn $name() {
            let w: Word = kani::any();
            let l = Limb(w);
            let j: usize = kani::any();
            kani::assume(j < 16);
            let nib = ((w >> (4 * (15 - j))) & 0xf) as u8;
            let mut s = sink();
            assert!(write!(s, $fmt, l).is_ok() && s.len == 16 + $prefix && s.buf[$prefix + j] == hexd(nib, $upper));
            assert!($prefix == 0 || (s.buf[0] == b'0' && s.buf[1] == b'x'));
        }
    };
}
//@ name=c16_fmt_limb_lower_hex prop=C16,C11 tier=quick profile=k64 funcs="LowerHex for Limb" bound="Limb: every value; symbolic digit position: 16 digits, leading zeros kept" free_bits=68
fmt_limb!(c16_fmt_limb_lower_hex, "{:x}", false, 0);
//@ name=c16_fmt_limb_upper_hex prop=C16,C11 tier=quick profile=k64 funcs="UpperHex for Limb" bound="Limb: every value; symbolic digit position" free_bits=68
fmt_limb!(c16_fmt_limb_upper_hex, "{:X}", true, 0);
//@ name=c16_fmt_limb_display prop=C16,C11 tier=quick profile=k64 funcs="Display for Limb" bound="Limb: every value; symbolic digit position (upper-case hex)" free_bits=68
fmt_limb!(c16_fmt_limb_display, "{}", true, 0);

macro_rules! fmt_uint1 {
    ($name:ident, $fmt:expr, $upper:expr, $prefix:expr, $wrap:expr) => {
        #[kani::proof]
        #[kani::unwind(20)]
        fn $name() {
            let x: Uint<1> = any_uint();
            let v = to_u128(&x);
            let j: usize = kani::any();
            kani::assume(j < 16);
            let nib = ((v >> (4 * (15 - j))) & 0xf) as u8;
            let mut s = sink();
            let r = match $wrap {
                0 => write!(s, $fmt, x),
                1 => write!(s, $fmt, Int::from_bits(x)),
                2 => write!(s, $fmt, Wrapping(x)),
                3 => {
                    kani::assume(v != 0);
                    write!(s, $fmt, NonZero::new(x).unwrap())
                }
                _ => {
                    kani::assume(v & 1 == 1);
                    write!(s, $fmt, crate::Odd::new(x).unwrap())
                }
            };
            assert!(r.is_ok() && s.len == 16 + $prefix && s.buf[$prefix + j] == hexd(nib, $upper));
            assert!($prefix == 0 || (s.buf[0] == b'0' && s.buf[1] == b'x'));
        }
    };
}
//@ name=c16_fmt_uint1_lower_hex prop=C16,C11 tier=quick profile=k64 funcs="LowerHex for Uint" bound="Uint<1>: every value; symbolic digit position: 16 digits" free_bits=69
fmt_uint1!(c16_fmt_uint1_lower_hex, "{:x}", false, 0, 0);
//@ name=c16_fmt_uint1_upper_hex prop=C16,C11 tier=quick profile=k64 funcs="UpperHex for Uint" bound="Uint<1>: every value; symbolic digit position" free_bits=69
fmt_uint1!(c16_fmt_uint1_upper_hex, "{:X}", true, 0, 0);
//@ name=c16_fmt_uint1_display prop=C16,C11 tier=quick profile=k64 funcs="Display for Uint" bound="Uint<1>: every value; symbolic digit position (upper-case hex)" free_bits=69
fmt_uint1!(c16_fmt_uint1_display, "{}", true, 0, 0);
//@ name=c16_fmt_int1_lower_hex prop=C16,C13,C11 tier=quick profile=k64 funcs="LowerHex for Int" bound="Int<1>: every value: the two's complement digits" free_bits=69
fmt_uint1!(c16_fmt_int1_lower_hex, "{:x}", false, 0, 1);
//@ name=c16_fmt_int1_display prop=C16,C13,C11 tier=quick profile=k64 funcs="Display for Int" bound="Int<1>: every value" free_bits=69
fmt_uint1!(c16_fmt_int1_display, "{}", true, 0, 1);
//@ name=c16_fmt_wrapping_upper_hex prop=C16,C11 tier=quick profile=k64 funcs="UpperHex for Wrapping<Uint>" bound="Wrapping<Uint<1>>: every value" free_bits=69
fmt_uint1!(c16_fmt_wrapping_upper_hex, "{:X}", true, 0, 2);
//@ name=c16_fmt_nonzero_lower_hex prop=C16,C12,C11 tier=quick profile=k64 funcs="LowerHex for NonZero<Uint>" bound="NonZero<Uint<1>>: every non-zero value" free_bits=69
fmt_uint1!(c16_fmt_nonzero_lower_hex, "{:x}", false, 0, 3);
//@ name=c16_fmt_odd_display prop=C16,C12,C11 tier=quick profile=k64 funcs="Display for Odd<Uint>" bound="Odd<Uint<1>>: every odd value" free_bits=69
fmt_uint1!(c16_fmt_odd_display, "{}", true, 0, 4);
