//! C17 (large-integer path of the radix encoder) — k8k profile: 8-bit words and
//! RADIX_ENCODING_LIMBS_LARGE lowered from 32 to 2 in the derived copy, so that "divide by the largest
//! power of the radix that fits LARGE limbs, recurse on the remainder" runs at 3..5 limbs.
//! Oracle (division-free): every output byte is a lower-case digit below the radix and the Horner
//! value of the digit string equals the input.
use super::RadixDivisionParams;
use crate::__verif_common::*;
use crate::{Limb, Uint, Word};

macro_rules! encode_large {
    ($name:ident, $L:expr, $radix:expr, $U:expr, $x:expr) => {
        #[kani::proof]
        #[kani::unwind($U)]
        fn $name() {
            const L: usize = $L;
            let x: Uint<L> = $x;
            let v = to_u64(&x);
            let params = RadixDivisionParams::for_radix($radix);
            let mut limbs = x.to_limbs();
            const SZ: usize = 28;
            let size = params.encoded_size(L);
            assert!(size <= SZ);
            let mut out = [0u8; SZ];
            params.encode_limbs(&mut limbs, &mut out[..size]);
            let mut acc: u64 = 0;
            let mut i = 0;
            while i < size {
                let c = out[i];
                let d = if c >= b'0' && c <= b'9' { c - b'0' } else if c >= b'a' && c <= b'z' { c - b'a' + 10 } else { 255 };
                assert!((d as u32) < $radix);
                acc = acc * $radix + d as u64;
                i += 1;
            }
            assert!(acc == v);
            kani::cover!(v >> (8 * L - 1) != 0);
            kani::cover!(v != 0 && v < 0x100);
        }
    };
}
//@ name=c17_k8k_encode_large_r36_3 prop=C17,C11 tier=thorough profile=k8k funcs="RadixDivisionParams::encode_limbs (large-divisor recursion)" bound="u8 words, LARGE = 2: radix 36, 3 limbs: limbs [S(2), S(2), free]" free_bits=14
encode_large!(c17_k8k_encode_large_r36_3, 3, 36, 8, Uint::new([Limb(shaped_word(2)), Limb(shaped_word(2)), Limb(kani::any())]));
// radix 10 / 7 / 3 instances (3-5 limbs) exhausted memory or time (the large-divisor loop runs boxed division on
// slices of symbolic length); only the radix-36 instance finishes, in the thorough tier.
