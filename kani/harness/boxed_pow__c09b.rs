//! C09 (boxed part) — the boxed windowed exponentiation `pow_montgomery_form` (the body of
//! BoxedMontyForm::pow / pow_bounded_exp).  k8, 1 limb.  Child of `modular::boxed_monty_form::pow`
//! so that the private kernel is called directly on plain BoxedUint arguments: behind the public
//! wrapper the parameters live in an `Arc`, through which CBMC loses the (concrete) limb counts and
//! unwinds every limb loop to the bound (measured: > 300 s for exponent_bits = 0).  The wrapper
//! itself is a field-forwarding call (src/modular/boxed_monty_form/pow.rs:19-31).
//! -m^-1 mod 2^8 and R mod m are symbolic values constrained by their defining equations.
//! Oracle: the fixed-width MontyForm result (itself checked against a bit-serial ladder in
//! c09_k8_pow_k*) and canonical form (< m).
use super::pow_montgomery_form;
use crate::__verif_common::boxed::*;
use crate::__verif_common::*;
use crate::modular::{MontyForm, MontyParams};
use crate::{Limb, Odd, Uint, Word};

macro_rules! boxed_pow1 {
    ($name:ident, $k:expr, $m:expr, $x:expr, $cov:expr) => {
        #[kani::proof]
        #[kani::unwind(20)]
        fn $name() {
            let m: Word = $m;
            kani::assume(m & 1 == 1 && m >= 3);
            let x: Word = $x;
            kani::assume(x < m);
            let e: Word = kani::any(); // bits at and above k must be ignored
            let fparams = MontyParams::new(Odd::new(Uint::<1>::new([Limb(m)])).unwrap());
            let fbase = MontyForm::from_montgomery(Uint::<1>::new([Limb(x)]), fparams);
            let want = fbase.pow_bounded_exp(&Uint::<1>::new([Limb(e)]), $k);
            let ninv: Word = kani::any();
            kani::assume(ninv.wrapping_mul(m).wrapping_add(1) == 0);
            let one: Word = kani::any();
            let q: u16 = kani::any();
            kani::assume(one < m && q <= 256 && q * (m as u16) + one as u16 == 256);
            let (bm, bone, bx, be) = (boxed_from(&[m]), boxed_from(&[one]), boxed_from(&[x]), boxed_from(&[e]));
            let r = pow_montgomery_form(&bx, &be, $k, &bm, &bone, Limb(ninv));
            let rv = bword(&r, 0);
            assert!(r.nlimbs() == 1 && rv < m); // canonical
            assert!(rv == want.as_montgomery().as_words()[0]); // base^(e mod 2^k), as the fixed-width route
            kani::cover!(x == m - 1 && e > 1);
            if $cov {
                kani::cover!(rv == 0 && x != 0); // base^e = 0 mod m with a non-zero base (composite m)
            }
            core::mem::forget((bm, bone, bx, be, r));
        }
    };
}
//@ name=c09_k8_boxed_pow_k8_m81 prop=C09,C15,C11 tier=quick profile=k8 funcs="pow_montgomery_form (boxed; body of BoxedMontyForm::pow / pow_bounded_exp),BoxedMontyMultiplier::mul_amm,square_amm_assign,mul_amm_assign" bound="u8 words, boxed 1 limb, k=8: m = 81 = 3^4 (composite, one leading zero bit), every base < m, every 8-bit exponent" free_bits=15
boxed_pow1!(c09_k8_boxed_pow_k8_m81, 8, 81, kani::any(), true);
//@ name=c09_k8_boxed_pow_k8_m125 prop=C09,C15,C11 tier=quick profile=k8 funcs="pow_montgomery_form (boxed)" bound="u8 words, boxed 1 limb, k=8: m = 125 = 5^3 (composite, one leading zero bit), every base < m, every 8-bit exponent" free_bits=15
boxed_pow1!(c09_k8_boxed_pow_k8_m125, 8, 125, kani::any(), true);
//@ name=c09_k8_boxed_pow_k8_m255 prop=C09,C15,C11 tier=quick profile=k8 funcs="pow_montgomery_form (boxed)" bound="u8 words, boxed 1 limb, k=8: m = 255 (composite, no leading zero bit), every base < m, every 8-bit exponent" free_bits=16
boxed_pow1!(c09_k8_boxed_pow_k8_m255, 8, 255, kani::any(), false);
//@ name=c09_k8_boxed_pow_k8_mset prop=C09,C15,C11 tier=thorough profile=k8 funcs="pow_montgomery_form (boxed)" bound="u8 words, boxed 1 limb, k=8: m in {81, 125, 75, 127, 255, 3}, every base < m, every 8-bit exponent" free_bits=19
boxed_pow1!(c09_k8_boxed_pow_k8_mset, 8, { let i: u8 = kani::any(); kani::assume(i < 6); [81 as Word, 125, 75, 127, 255, 3][i as usize] }, kani::any(), true);
//@ name=c09_k8_boxed_pow_k5 prop=C09,C15,C11 tier=quick profile=k8 funcs="pow_montgomery_form (boxed)" bound="u8 words, boxed 1 limb, k=5 (partial top window): m = S(2)^sign|1 >= 3, base S(2) < m, every 8-bit exponent" free_bits=17
boxed_pow1!(c09_k8_boxed_pow_k5, 5, shaped_signed_top(2) | 1, shaped_word(2), false);
//@ name=c09_k8_boxed_pow_k0 prop=C09,C15,C11 tier=quick profile=k8 funcs="pow_montgomery_form (boxed; exponent_bits = 0)" bound="u8 words, boxed 1 limb, k=0: every odd m >= 3, every base < m, every exponent: result is one" free_bits=23
boxed_pow1!(c09_k8_boxed_pow_k0, 0, kani::any(), kani::any(), false);
//@ name=c09_k8_boxed_pow_k4 prop=C09,C15,C11 tier=thorough profile=k8 funcs="pow_montgomery_form (boxed)" bound="u8 words, boxed 1 limb, k=4 (window boundary): m = S(2)^sign|1 >= 3, base S(2) < m, every 8-bit exponent" free_bits=17
boxed_pow1!(c09_k8_boxed_pow_k4, 4, shaped_signed_top(2) | 1, shaped_word(2), false);
