//! C15 — explicit route pairs (same symbolic input on both sides, bit-identical results).  Most
//! ct-vs-vartime / trait-vs-inherent / operator pairs are asserted inside the exactness harnesses
//! (tagged C15); this file adds boxed-vs-fixed pairs for the linear operations at 64-bit words.
use crate::__verif_common::boxed::*;
use crate::__verif_common::*;
use crate::{BoxedUint, Uint, U128};

fn same2(b: &BoxedUint, f: &Uint<2>) -> bool {
    b.nlimbs() == 2 && b.bits_precision() == 128 && words_eq(&bwords::<2>(b), &words_of(f))
}

//@ prop=C15,C05 tier=quick profile=k64 funcs="BoxedUint::shl,BoxedUint::shr,BoxedUint::overflowing_shl,BoxedUint::overflowing_shr,BoxedUint::wrapping_shl,BoxedUint::wrapping_shr,BoxedUint::shl_vartime,BoxedUint::shr_vartime,BoxedUint::wrapping_shl_vartime,BoxedUint::wrapping_shr_vartime" bound="BoxedUint of 128 bits vs U128: every value, every u32 shift: identical results, overflow flags and precision" free_bits=160
#[kani::proof]
#[kani::unwind(12)]
fn c15_boxed_vs_fixed_shifts_2() {
    let f: U128 = any_uint();
    let b = boxed_from(&words_of(&f));
    let s: u32 = kani::any();
    let (l, lo) = b.overflowing_shl(s);
    let (r, ro) = b.overflowing_shr(s);
    assert!(bool::from(lo) == (s >= 128) && bool::from(ro) == (s >= 128));
    let wl = b.wrapping_shl(s);
    let wr = b.wrapping_shr(s);
    assert!(same2(&wl, &f.wrapping_shl(s)) && same2(&wr, &f.wrapping_shr(s)));
    let wlv = b.wrapping_shl_vartime(s);
    let wrv = b.wrapping_shr_vartime(s);
    assert!(same2(&wlv, &f.wrapping_shl(s)) && same2(&wrv, &f.wrapping_shr(s)));
    let lv = b.shl_vartime(s);
    let rv = b.shr_vartime(s);
    assert!(lv.is_some() == (s < 128) && rv.is_some() == (s < 128));
    if s < 128 {
        assert!(same2(&l, &f.shl(s)) && same2(&r, &f.shr(s)));
        let (sl, sr) = (b.shl(s), b.shr(s));
        assert!(same2(&sl, &f.shl(s)) && same2(&sr, &f.shr(s)));
        assert!(same2(lv.as_ref().unwrap(), &f.shl(s)) && same2(rv.as_ref().unwrap(), &f.shr(s)));
        core::mem::forget((sl, sr));
    }
    kani::cover!(s == 127);
    kani::cover!(s == 128);
    kani::cover!(s == 64);
    core::mem::forget((b, l, r, wl, wr, wlv, wrv, lv, rv));
}

//@ prop=C15,C05 tier=quick profile=k64 funcs="BoxedUint::bits,BoxedUint::bits_vartime,BoxedUint::leading_zeros,BoxedUint::trailing_zeros,BoxedUint::trailing_ones,BoxedUint::trailing_zeros_vartime,BoxedUint::trailing_ones_vartime,BoxedUint::bit,BoxedUint::bit_vartime,BoxedUint::set_bit,BitAnd/BitOr/BitXor/Not for BoxedUint" bound="BoxedUint of 128 bits vs U128: every value, every u32 index" free_bits=290
#[kani::proof]
#[kani::unwind(8)]
fn c15_boxed_vs_fixed_bits_2() {
    let f: U128 = any_uint();
    let g: U128 = any_uint();
    let (b, c) = (boxed_from(&words_of(&f)), boxed_from(&words_of(&g)));
    assert!(b.bits() == f.bits() && b.bits_vartime() == f.bits_vartime() && b.leading_zeros() == f.leading_zeros());
    assert!(b.trailing_zeros() == f.trailing_zeros() && b.trailing_ones() == f.trailing_ones());
    assert!(b.trailing_zeros_vartime() == f.trailing_zeros_vartime() && b.trailing_ones_vartime() == f.trailing_ones_vartime());
    let i: u32 = kani::any();
    assert!(bool::from(b.bit(i)) == f.bit(i).to_bool_vartime() && b.bit_vartime(i) == f.bit_vartime(i));
    let and = &b & &c;
    let or = &b | &c;
    let xor = &b ^ &c;
    let not = !b.clone();
    assert!(same2(&and, &(f & g)) && same2(&or, &(f | g)) && same2(&xor, &(f ^ g)) && same2(&not, &!f));
    core::mem::forget((b, c, and, or, xor, not));
}

