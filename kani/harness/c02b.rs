//! C02 / C03 (boxed part) — BoxedUint division and multiplication at k8: exact results, documented
//! precisions, and limb-for-limb agreement with the fixed-width route (C15).
use crate::__verif_common::boxed::*;
use crate::__verif_common::*;
use crate::{BoxedUint, CheckedDiv, CheckedMul, DivRemLimb, DivVartime, Limb, NonZero, RemLimb, RemMixed, Uint, Word};

fn bval(x: &BoxedUint) -> u64 {
    let mut v: u64 = 0;
    let mut i = 0;
    while i < x.nlimbs() && i < 8 {
        v |= (bword(x, i) as u64) << (8 * i);
        i += 1;
    }
    v
}

macro_rules! boxed_div_vt {
    ($name:ident, $N:expr, $M:expr, $n:expr, $d:expr) => {
        #[kani::proof]
        #[kani::unwind(7)]
        fn $name() {
            let nf: Uint<$N> = $n;
            let df: Uint<$M> = $d;
            let (nv, dv) = (to_u64(&nf) as u32, to_u64(&df) as u32);
            kani::assume(dv != 0);
            let n = boxed_from(&words_of(&nf));
            let d = NonZero::new(boxed_from(&words_of(&df))).unwrap();
            let (q2, r2) = n.div_rem_vartime(&d);
            let (qv, rv) = (bval(&q2) as u32, bval(&r2) as u32);
            assert!(rv < dv && qv * dv + rv == nv); // exact (q*d <= n < 2^24: no overflow)
            assert!(q2.nlimbs() == $N && r2.nlimbs() == $M); // documented result widths
            kani::cover!(nv < dv);
            kani::cover!(rv == 0 && qv > 1);
            kani::cover!(dv < 0x100 && $M > 1);
            core::mem::forget((n, d, q2, r2));
        }
    };
}
macro_rules! boxed_rem_vt {
    ($name:ident, $N:expr, $M:expr, $n:expr, $d:expr) => {
        #[kani::proof]
        #[kani::unwind(7)]
        fn $name() {
            let nf: Uint<$N> = $n;
            let df: Uint<$M> = $d;
            let (nv, dv) = (to_u64(&nf) as u32, to_u64(&df) as u32);
            kani::assume(dv != 0);
            let n = boxed_from(&words_of(&nf));
            let d = NonZero::new(boxed_from(&words_of(&df))).unwrap();
            let r = n.rem_vartime(&d);
            let rv = bval(&r) as u32;
            // r < d, r <= n and d | n - r  (division-free: some q with q*d + r == n)
            let qv: u32 = kani::any();
            kani::assume(qv <= nv && (qv as u64) * (dv as u64) <= nv as u64 && (qv as u64 + 1) * (dv as u64) > nv as u64);
            assert!(rv < dv && qv * dv + rv == nv && r.nlimbs() == $M);
            kani::cover!(nv < dv);
            kani::cover!(rv == 0 && qv > 1);
            core::mem::forget((n, d, r));
        }
    };
}
/// constructive shape (n := q*d + r built in u64) so that the add-back inputs of
/// div_rem_vartime_in_place lie inside the shape
macro_rules! boxed_div_vt_constructive {
    ($name:ident, $N:expr, $M:expr, $d:expr, $kq:expr, $kr:expr) => {
        #[kani::proof]
        #[kani::unwind(7)]
        fn $name() {
            let df: Uint<$M> = $d;
            let dv = to_u64(&df);
            kani::assume(dv != 0);
            let qraw: u32 = kani::any();
            let qhi = qraw >> 2;
            kani::assume(qraw >> $kq == 0 && (qhi == 0 || qhi == ((1u32 << $kq) - 1) >> 2));
            let rsel: bool = kani::any();
            let rk: u64 = (kani::any::<u8>() as u64) & ((1u64 << $kr) - 1);
            kani::assume(rk < dv);
            let rh = if rsel { dv - 1 - rk } else { rk };
            let nv = (qraw as u64) * dv + rh;
            kani::assume(nv >> (8 * $N) == 0);
            let nf: Uint<$N> = from_u128(nv as u128);
            let n = boxed_from(&words_of(&nf));
            let d = NonZero::new(boxed_from(&words_of(&df))).unwrap();
            let (q, r) = n.div_rem_vartime(&d);
            assert!(bval(&q) == qraw as u64 && bval(&r) == rh && q.nlimbs() == $N && r.nlimbs() == $M);
            kani::cover!(rh == dv - 1 && qraw > 3);
            kani::cover!(rh == 0 && qraw > 3);
            core::mem::forget((n, d, q, r));
        }
    };
}
macro_rules! boxed_div_ct {
    ($name:ident, $N:expr, $n:expr, $d:expr) => {
        #[kani::proof]
        #[kani::unwind(7)]
        fn $name() {
            let nf: Uint<$N> = $n;
            let df: Uint<$N> = $d;
            let (nv, dv) = (to_u64(&nf) as u32, to_u64(&df) as u32);
            kani::assume(dv != 0);
            let n = boxed_from(&words_of(&nf));
            let d = NonZero::new(boxed_from(&words_of(&df))).unwrap();
            let (q, r) = n.div_rem(&d);
            let (qv, rv) = (bval(&q) as u32, bval(&r) as u32);
            assert!(rv < dv && qv * dv + rv == nv);
            assert!(q.nlimbs() == $N && r.nlimbs() == $N);
            kani::cover!(nv < dv);
            kani::cover!(rv == 0 && qv > 1);
            kani::cover!(dv < 0x100);
            core::mem::forget((n, d, q, r));
        }
    };
}
macro_rules! boxed_div_forms {
    ($name:ident, $N:expr, $M:expr, $which:expr, $n:expr, $d:expr) => {
        #[kani::proof]
        #[kani::unwind(7)]
        fn $name() {
            let nf: Uint<$N> = $n;
            let df: Uint<$M> = $d;
            kani::assume(to_u64(&df) != 0);
            let n = boxed_from(&words_of(&nf));
            let d = NonZero::new(boxed_from(&words_of(&df))).unwrap();
            let (q, r) = n.div_rem_vartime(&d);
            let (qv, rv) = (bval(&q), bval(&r));
            if $which == 0 {
                let q4 = n.wrapping_div_vartime(&d);
                let q6 = DivVartime::div_vartime(&n, &d);
                let r6 = RemMixed::rem_mixed(&n, &d);
                assert!(bval(&q4) == qv && bval(&q6) == qv && bval(&r6) == rv && r6.nlimbs() == $M);
                core::mem::forget((q4, q6, r6));
            } else if $which == 1 {
                // the constant-time named forms (equal precisions)
                let r3 = n.rem(&d);
                let q3 = n.wrapping_div(&d);
                assert!(bval(&r3) == rv && bval(&q3) == qv);
                let c = n.checked_div(d.as_ref());
                assert!(bool::from(c.is_some()) && bval(&c.unwrap()) == qv);
                core::mem::forget((r3, q3));
            } else if $which == 2 {
                let q5 = &n / &d;
                let r5 = &n % &d;
                let q7 = n.clone() / d.clone();
                assert!(bval(&q5) == qv && bval(&r5) == rv && bval(&q7) == qv);
                core::mem::forget((q5, r5, q7));
            } else {
                let mut q8 = n.clone();
                q8 /= &d;
                let mut r8 = n.clone();
                r8 %= &d;
                let r9 = n.clone() % d.clone();
                assert!(bval(&q8) == qv && bval(&r8) == rv && bval(&r9) == rv);
                core::mem::forget((q8, r8, r9));
            }
            kani::cover!(rv != 0);
            core::mem::forget((n, d, q, r));
        }
    };
}
//@ name=c02_k8_boxed_div_vt_2_2 prop=C02,C15,C11 tier=quick profile=k8 funcs="BoxedUint::div_rem_vartime,div_rem_vartime_in_place" bound="u8 words, boxed 2 by 2 limbs: n=[S(2),free], d=[S(2),S(2)^sign] != 0" free_bits=15
boxed_div_vt!(c02_k8_boxed_div_vt_2_2, 2, 2, Uint::new([Limb(shaped_word(2)), Limb(kani::any())]), Uint::new([Limb(shaped_word(2)), Limb(shaped_signed_top(2))]));
//@ name=c02_k8_boxed_div_vt_3_2 prop=C02,C15,C11 tier=quick profile=k8 funcs="BoxedUint::div_rem_vartime (dividend wider than divisor)" bound="u8 words, boxed 3 by 2 limbs: n=[S(1),S(1),free], d=[S(1),S(1)^sign] != 0" free_bits=13
boxed_div_vt!(c02_k8_boxed_div_vt_3_2, 3, 2, Uint::new([Limb(shaped_word(1)), Limb(shaped_word(1)), Limb(kani::any())]), Uint::new([Limb(shaped_word(1)), Limb(shaped_signed_top(1))]));
//@ name=c02_k8_boxed_div_vt_3_2w prop=C02,C15,C11 tier=thorough profile=k8 funcs="BoxedUint::div_rem_vartime (dividend wider than divisor)" bound="u8 words, boxed 3 by 2 limbs: n=[S(2),S(2),free], d=[S(2),S(2)^sign] != 0" free_bits=17
boxed_div_vt!(c02_k8_boxed_div_vt_3_2w, 3, 2, Uint::new([Limb(shaped_word(2)), Limb(shaped_word(2)), Limb(kani::any())]), Uint::new([Limb(shaped_word(2)), Limb(shaped_signed_top(2))]));
//@ name=c02_k8_boxed_div_vt_1_2 prop=C02,C15,C11 tier=quick profile=k8 funcs="BoxedUint::div_rem_vartime (dividend narrower than divisor)" bound="u8 words, boxed 1 by 2 limbs: every n, d=[S(4),S(4)^sign] != 0" free_bits=17
boxed_div_vt!(c02_k8_boxed_div_vt_1_2, 1, 2, any_uint(), Uint::new([Limb(shaped_word(4)), Limb(shaped_signed_top(4))]));
//@ name=c02_k8_boxed_div_vt_2_3 prop=C02,C15,C11 tier=quick profile=k8 funcs="BoxedUint::div_rem_vartime (dividend narrower than divisor)" bound="u8 words, boxed 2 by 3 limbs: n=[S(3),free], d=[S(2),S(2),S(2)^sign] != 0" free_bits=18
boxed_div_vt!(c02_k8_boxed_div_vt_2_3, 2, 3, Uint::new([Limb(shaped_word(3)), Limb(kani::any())]), Uint::new([Limb(shaped_word(2)), Limb(shaped_word(2)), Limb(shaped_signed_top(2))]));
//@ name=c02_k8_boxed_div_vt_3_3 prop=C02,C15,C11 tier=thorough profile=k8 funcs="BoxedUint::div_rem_vartime" bound="u8 words, boxed 3 by 3 limbs: n=[S(1),S(1),free], d=[S(1),S(1),S(2)^sign] != 0" free_bits=15
boxed_div_vt!(c02_k8_boxed_div_vt_3_3, 3, 3, Uint::new([Limb(shaped_word(1)), Limb(shaped_word(1)), Limb(kani::any())]), Uint::new([Limb(shaped_word(1)), Limb(shaped_word(1)), Limb(shaped_signed_top(2))]));
//@ name=c02_k8_boxed_div_vt_constructive_3_3 prop=C02,C15,C11,C17 tier=quick profile=k8 funcs="BoxedUint::div_rem_vartime,div_rem_vartime_in_place,div3by2" bound="u8 words, boxed 3 by 3 limbs: d=[S(1),S(1),free] (every top limb), n=q*d+r with q in {0..3,12..15}, r within 2 of 0 or d" free_bits=15 core=C17
boxed_div_vt_constructive!(c02_k8_boxed_div_vt_constructive_3_3, 3, 3, Uint::new([Limb(shaped_word(1)), Limb(shaped_word(1)), Limb(kani::any())]), 4, 1);
//@ name=c02_k8_boxed_div_vt_constructive_4_3 prop=C02,C15,C11,C17 tier=quick profile=k8 funcs="BoxedUint::div_rem_vartime,div_rem_vartime_in_place,div3by2" bound="u8 words, boxed 4 by 3 limbs: d=[S(1),S(1),free], n=q*d+r < 2^32 with q in {0..3,508..511}, r within 2 of 0 or d" free_bits=15 core=C17
boxed_div_vt_constructive!(c02_k8_boxed_div_vt_constructive_4_3, 4, 3, Uint::new([Limb(shaped_word(1)), Limb(shaped_word(1)), Limb(kani::any())]), 9, 1);
//@ name=c02_k8_boxed_div_ct_2 prop=C02,C15,C11 tier=quick profile=k8 funcs="BoxedUint::div_rem,div_rem_unchecked" bound="u8 words, boxed 2 by 2 limbs: n=[S(2),free], d=[S(2),S(2)^sign] != 0" free_bits=15
boxed_div_ct!(c02_k8_boxed_div_ct_2, 2, Uint::new([Limb(shaped_word(2)), Limb(kani::any())]), Uint::new([Limb(shaped_word(2)), Limb(shaped_signed_top(2))]));
//@ name=c02_k8_boxed_div_ct_3 prop=C02,C15,C11 tier=thorough profile=k8 funcs="BoxedUint::div_rem,div_rem_unchecked" bound="u8 words, boxed 3 by 3 limbs: n=[S(1),S(1),free], d=[S(1),S(1),S(2)^sign] != 0" free_bits=15
boxed_div_ct!(c02_k8_boxed_div_ct_3, 3, Uint::new([Limb(shaped_word(1)), Limb(shaped_word(1)), Limb(kani::any())]), Uint::new([Limb(shaped_word(1)), Limb(shaped_word(1)), Limb(shaped_signed_top(2))]));
//@ name=c02_k8_boxed_rem_vt_2_2 prop=C02,C15,C11 tier=quick profile=k8 funcs="BoxedUint::rem_vartime" bound="u8 words, boxed 2 by 2 limbs: n=[S(2),free], d=[S(2),S(2)^sign] != 0" free_bits=15
boxed_rem_vt!(c02_k8_boxed_rem_vt_2_2, 2, 2, Uint::new([Limb(shaped_word(2)), Limb(kani::any())]), Uint::new([Limb(shaped_word(2)), Limb(shaped_signed_top(2))]));
//@ name=c02_k8_boxed_rem_vt_1_2 prop=C02,C15,C11 tier=quick profile=k8 funcs="BoxedUint::rem_vartime (dividend narrower than divisor: own early return)" bound="u8 words, boxed 1 by 2 limbs: every n, d=[S(4),S(4)^sign] != 0" free_bits=17
boxed_rem_vt!(c02_k8_boxed_rem_vt_1_2, 1, 2, any_uint(), Uint::new([Limb(shaped_word(4)), Limb(shaped_signed_top(4))]));
//@ name=c02_k8_boxed_rem_vt_3_2 prop=C02,C15,C11 tier=thorough profile=k8 funcs="BoxedUint::rem_vartime" bound="u8 words, boxed 3 by 2 limbs: n=[S(2),S(2),free], d=[S(2),S(2)^sign] != 0" free_bits=17
boxed_rem_vt!(c02_k8_boxed_rem_vt_3_2, 3, 2, Uint::new([Limb(shaped_word(2)), Limb(shaped_word(2)), Limb(kani::any())]), Uint::new([Limb(shaped_word(2)), Limb(shaped_signed_top(2))]));
//@ name=c02_k8_boxed_div_forms_vt_2_2 prop=C02,C15,C11 tier=quick profile=k8 funcs="BoxedUint::wrapping_div_vartime,DivVartime::div_vartime,RemMixed::rem_mixed" bound="u8 words, boxed 2 by 2 limbs, against div_rem_vartime: n=[S(2),S(2)^sign], concrete d = 0x0135" free_bits=5
boxed_div_forms!(c02_k8_boxed_div_forms_vt_2_2, 2, 2, 0, Uint::new([Limb(shaped_word(2)), Limb(shaped_signed_top(2))]), Uint::new([Limb(0x35), Limb(0x01)]));
//@ name=c02_k8_boxed_div_forms_ct_2_2 prop=C02,C15,C11 tier=quick profile=k8 funcs="BoxedUint::rem,BoxedUint::wrapping_div,BoxedUint::checked_div" bound="u8 words, boxed 2 by 2 limbs, against div_rem_vartime: n=[S(2),S(2)^sign], concrete d = 0x0135" free_bits=5
boxed_div_forms!(c02_k8_boxed_div_forms_ct_2_2, 2, 2, 1, Uint::new([Limb(shaped_word(2)), Limb(shaped_signed_top(2))]), Uint::new([Limb(0x35), Limb(0x01)]));
//@ name=c02_k8_boxed_div_forms_op_2_2 prop=C02,C15,C11 tier=quick profile=k8 funcs="Div<&NonZero<BoxedUint>> for &BoxedUint,Rem<&NonZero<BoxedUint>> for &BoxedUint,Div<NonZero<BoxedUint>> for BoxedUint" bound="u8 words, boxed 2 by 2 limbs, against div_rem_vartime: n=[S(2),S(2)^sign], concrete single-limb-valued d = 0x0007" free_bits=5
boxed_div_forms!(c02_k8_boxed_div_forms_op_2_2, 2, 2, 2, Uint::new([Limb(shaped_word(2)), Limb(shaped_signed_top(2))]), Uint::new([Limb(0x07), Limb(0x00)]));
//@ name=c02_k8_boxed_div_forms_assign_2_2 prop=C02,C15,C11 tier=quick profile=k8 funcs="DivAssign<&NonZero<BoxedUint>> for BoxedUint,RemAssign<&NonZero<BoxedUint>> for BoxedUint,Rem<NonZero<BoxedUint>> for BoxedUint" bound="u8 words, boxed 2 by 2 limbs, against div_rem_vartime: n=[S(2),S(2)^sign], concrete d = 0x0135" free_bits=5
boxed_div_forms!(c02_k8_boxed_div_forms_assign_2_2, 2, 2, 3, Uint::new([Limb(shaped_word(2)), Limb(shaped_signed_top(2))]), Uint::new([Limb(0x35), Limb(0x01)]));
//@ name=c02_k8_boxed_div_forms_3_2 prop=C02,C15,C11 tier=quick profile=k8 funcs="BoxedUint::wrapping_div_vartime,DivVartime,RemMixed (mixed precisions)" bound="u8 words, boxed 3 by 2 limbs, vartime forms against div_rem_vartime: n limbs S(1) (sign free), concrete d = 0x0283" free_bits=4
boxed_div_forms!(c02_k8_boxed_div_forms_3_2, 3, 2, 0, Uint::new([Limb(shaped_word(1)), Limb(shaped_word(1)), Limb(shaped_signed_top(1))]), Uint::new([Limb(0x83), Limb(0x02)]));
//@ name=c02_k8_boxed_div_forms_1_2 prop=C02,C15,C11 tier=quick profile=k8 funcs="BoxedUint::wrapping_div_vartime,DivVartime,RemMixed (dividend narrower than divisor)" bound="u8 words, boxed 1 by 2 limbs, vartime forms against div_rem_vartime: every n, concrete d = 0x0283" free_bits=8
boxed_div_forms!(c02_k8_boxed_div_forms_1_2, 1, 2, 0, any_uint(), Uint::new([Limb(0x83), Limb(0x02)]));

//@ prop=C11,C02 tier=quick profile=k8 expect=finding:boxed_div_rem_mixed_precision funcs="BoxedUint::div_rem,BoxedUint::rem,BoxedUint::wrapping_div,BoxedUint::checked_div,div_rem_unchecked" bound="u8 words, dividend 2 limbs, divisor 1 limb (every value, d != 0): the constant-time forms must return floor(n/d), n mod d" free_bits=24
#[kani::proof]
#[kani::unwind(7)]
fn c11_k8_boxed_div_rem_mixed_precision() {
    let nf: Uint<2> = any_uint();
    let dw: Word = kani::any();
    kani::assume(dw != 0);
    let nv = to_u64(&nf) as u32;
    let n = boxed_from(&words_of(&nf));
    let d = NonZero::new(boxed_from(&[dw])).unwrap();
    let (q, r) = n.div_rem(&d); // panics: "the precision of the divisor must match the dividend"
    assert!((bval(&r) as u32) < dw as u32 && (bval(&q) as u32) * (dw as u32) + bval(&r) as u32 == nv);
    core::mem::forget((n, d, q, r));
}

//@ prop=C02,C15,C11 tier=quick profile=k8 funcs="BoxedUint::div_rem_limb,BoxedUint::rem_limb,BoxedUint::div_rem_limb_with_reciprocal,BoxedUint::rem_limb_with_reciprocal,DivRemLimb,RemLimb,BoxedUint::checked_div,CheckedDiv" bound="u8 words, boxed 2 limbs by one limb: every n, d = S(3) != 0; checked_div none exactly for a zero divisor" free_bits=20
#[kani::proof]
#[kani::unwind(7)]
fn c02_k8_boxed_div_by_limb() {
    let nf: Uint<2> = any_uint();
    let nv = to_u64(&nf) as u32;
    let dw: Word = shaped_word(3);
    let n = boxed_from(&words_of(&nf));
    if dw != 0 {
        let dl = NonZero::new(Limb(dw)).unwrap();
        let (q, r) = n.div_rem_limb(dl);
        assert!((r.0 as u32) < dw as u32 && (bval(&q) as u32) * (dw as u32) + r.0 as u32 == nv && q.nlimbs() == 2);
        assert!(n.rem_limb(dl) == r);
        let (q2, r2) = DivRemLimb::div_rem_limb(&n, dl);
        assert!(bval(&q2) == bval(&q) && r2 == r && RemLimb::rem_limb(&n, dl) == r);
        core::mem::forget((q, q2));
    }
    let d = boxed_from(&[dw, 0]);
    let c = n.checked_div(&d);
    assert!(bool::from(c.is_some()) == (dw != 0));
    let c2 = CheckedDiv::checked_div(&n, &d);
    assert!(bool::from(c2.is_some()) == (dw != 0));
    core::mem::forget((n, d, c, c2));
}

macro_rules! boxed_mul {
    ($name:ident, $N:expr, $M:expr, $a:expr, $b:expr) => {
        #[kani::proof]
        #[kani::unwind(7)]
        fn $name() {
            let af: Uint<$N> = $a;
            let bf: Uint<$M> = $b;
            let p = to_u64(&af) * to_u64(&bf);
            let a = boxed_from(&words_of(&af));
            let b = boxed_from(&words_of(&bf));
            let m = a.mul(&b);
            assert!(m.nlimbs() == $N + $M && bval(&m) == p); // widened, every limb of a*b
            let w = a.wrapping_mul(&b);
            let lmask = (1u64 << (8 * $N)) - 1;
            assert!(w.nlimbs() == $N && bval(&w) == p & lmask);
            let c = CheckedMul::checked_mul(&a, &b);
            assert!(bool::from(c.is_some()) == (p >> (8 * $N) == 0));
            if p >> (8 * $N) == 0 {
                let o = &a * &b; // the operator is the checked product at the receiver's precision
                assert!(bval(&o) == p && o.nlimbs() == $N);
                core::mem::forget(o);
            }
            let s = a.square();
            assert!(s.nlimbs() == 2 * $N && bval(&s) == to_u64(&af) * to_u64(&af));
            kani::cover!(p >> (8 * $N) != 0);
            kani::cover!(p != 0 && p >> (8 * $N) == 0);
            core::mem::forget((a, b, m, w, c, s));
        }
    };
}
//@ name=c03_k8_boxed_mul_2_2 prop=C03,C15,C11 tier=quick profile=k8 funcs="BoxedUint::mul,BoxedUint::wrapping_mul,BoxedUint::square,CheckedMul for BoxedUint,Mul for BoxedUint,mul_limbs,square_limbs" bound="u8 words, boxed 2x2 limbs: every limb S(3)" free_bits=16
boxed_mul!(c03_k8_boxed_mul_2_2, 2, 2, shaped(3), shaped(3));
//@ name=c03_k8_boxed_mul_3_1 prop=C03,C15,C11 tier=quick profile=k8 funcs="BoxedUint::mul,BoxedUint::wrapping_mul,BoxedUint::square,CheckedMul for BoxedUint (unequal lengths)" bound="u8 words, boxed 3x1 limbs (unequal lengths): lhs limbs S(2), every rhs" free_bits=17
boxed_mul!(c03_k8_boxed_mul_3_1, 3, 1, shaped(2), any_uint());
//@ name=c03_k8_boxed_mul_1_3 prop=C03,C15,C11 tier=quick profile=k8 funcs="BoxedUint::mul,BoxedUint::wrapping_mul,CheckedMul for BoxedUint (receiver narrower)" bound="u8 words, boxed 1x3 limbs: every lhs, rhs limbs S(2)" free_bits=17
boxed_mul!(c03_k8_boxed_mul_1_3, 1, 3, any_uint(), shaped(2));
