//! C20 — integer square root is the exact floor.  k8, oracle: s*s <= x < (s+1)*(s+1) in u64.
use crate::__verif_common::boxed::*;
use crate::__verif_common::*;
use crate::{BoxedUint, Limb, SquareRoot, Uint, Word};

fn is_floor_sqrt(x: u64, s: u64) -> bool {
    s * s <= x && x < (s + 1) * (s + 1)
}

macro_rules! sqrt_forms {
    ($name:ident, $L:expr, $x:expr) => {
        #[kani::proof]
        #[kani::unwind(12)]
        fn $name() {
            const L: usize = $L;
            let x: Uint<L> = $x;
            let xv = to_u64(&x);
            let s = x.sqrt();
            let sv = to_u64(&s);
            assert!(is_floor_sqrt(xv, sv));
            assert!(x.wrapping_sqrt() == s && SquareRoot::sqrt(&x) == s);
            let c = x.checked_sqrt();
            assert!(bool::from(c.is_some()) == (sv * sv == xv));
            if sv * sv == xv {
                assert!(c.unwrap() == s);
            }
            kani::cover!(sv * sv == xv && sv > 1);
            kani::cover!(xv == (sv + 1) * (sv + 1) - 1 && sv > 1); // t^2 - 1
            kani::cover!(xv == sv * sv + 1 && sv > 1);
        }
    };
}
macro_rules! sqrt_vartime_forms {
    ($name:ident, $L:expr, $x:expr) => {
        #[kani::proof]
        #[kani::unwind(8)]
        fn $name() {
            const L: usize = $L;
            let x: Uint<L> = $x;
            let xv = to_u64(&x);
            let s = x.sqrt_vartime();
            let sv = to_u64(&s);
            assert!(is_floor_sqrt(xv, sv));
            assert!(x.wrapping_sqrt_vartime() == s && SquareRoot::sqrt_vartime(&x) == s);
            let c = x.checked_sqrt_vartime();
            assert!(bool::from(c.is_some()) == (sv * sv == xv));
            kani::cover!(sv * sv == xv && sv > 1);
            kani::cover!(xv == (sv + 1) * (sv + 1) - 1 && sv > 1);
        }
    };
}

/// x = t^2 + d, d in {-1, 0, 1}, for every t below 2^(4L) (the neighbourhood of every perfect square)
fn near_square<const L: usize>() -> Uint<L> {
    near_square_of(kani::any::<u16>() as u64)
}
/// as above with t restricted to values next to 0 and next to 2^(4L) (S(3) shape on the root)
fn near_square_shaped<const L: usize>() -> Uint<L> {
    let k: u64 = (kani::any::<u8>() & 7) as u64;
    let hi: bool = kani::any();
    near_square_of(if hi { (1u64 << (4 * L)) - 1 - k } else { k })
}
fn near_square_of<const L: usize>(t: u64) -> Uint<L> {
    kani::assume(t < (1u64 << (4 * L)));
    let d: u8 = kani::any();
    kani::assume(d < 3);
    let sq = t * t;
    kani::assume(!(sq == 0 && d == 0));
    let x = sq + d as u64 - 1;
    kani::assume(x < (1u64 << (8 * L)));
    from_u128(x as u128)
}

//@ name=c20_k8_sqrt_1_all prop=C20,C11 tier=quick profile=k8 funcs="Uint::sqrt,Uint::wrapping_sqrt,Uint::checked_sqrt,SquareRoot::sqrt,Uint::div_rem" bound="u8 words, Uint<1>: every x (the MAX input with odd log2(BITS) included)" free_bits=8
sqrt_forms!(c20_k8_sqrt_1_all, 1, any_uint());
//@ name=c20_k8_sqrt_vartime_1_all prop=C20,C11,C15 tier=quick profile=k8 funcs="Uint::sqrt_vartime,Uint::wrapping_sqrt_vartime,Uint::checked_sqrt_vartime,SquareRoot::sqrt_vartime" bound="u8 words, Uint<1>: every x" free_bits=8 core=C15
sqrt_vartime_forms!(c20_k8_sqrt_vartime_1_all, 1, any_uint());
//@ name=c20_k8_sqrt_2_near_squares prop=C20,C11 tier=thorough profile=k8 funcs="Uint::sqrt,Uint::checked_sqrt,Uint::div_rem" bound="u8 words, Uint<2>: x in {t^2-1, t^2, t^2+1} for every t < 2^8" free_bits=10
sqrt_forms!(c20_k8_sqrt_2_near_squares, 2, near_square());
//@ name=c20_k8_sqrt_2_near_squares_shaped prop=C20,C11 tier=quick profile=k8 funcs="Uint::sqrt,Uint::checked_sqrt,Uint::div_rem" bound="u8 words, Uint<2>: x in {t^2-1, t^2, t^2+1} for t in {0..7} u {248..255}" free_bits=6
sqrt_forms!(c20_k8_sqrt_2_near_squares_shaped, 2, near_square_shaped());
//@ name=c20_k8_sqrt_2_top prop=C20,C11 tier=thorough profile=k8 funcs="Uint::sqrt,Uint::checked_sqrt,Uint::div_rem" bound="u8 words, Uint<2>: x = [S(3), free] (every top limb, low limb next to 0 / 255; MAX and values around 2^15 included)" free_bits=12
sqrt_forms!(c20_k8_sqrt_2_top, 2, Uint::new([Limb(shaped_word(3)), Limb(kani::any())]));
//@ name=c20_k8_sqrt_2_top_shaped prop=C20,C11 tier=quick profile=k8 funcs="Uint::sqrt,Uint::checked_sqrt,Uint::div_rem" bound="u8 words, Uint<2>: x = [S(2), S(2)^sign] (MAX, 2^15 +- small, small values)" free_bits=7
sqrt_forms!(c20_k8_sqrt_2_top_shaped, 2, Uint::new([Limb(shaped_word(2)), Limb(shaped_signed_top(2))]));
//@ name=c20_k8_sqrt_vartime_2_near_squares prop=C20,C11,C15 tier=thorough profile=k8 funcs="Uint::sqrt_vartime,Uint::checked_sqrt_vartime,Uint::div_rem_vartime" bound="u8 words, Uint<2>: x in {t^2-1, t^2, t^2+1} for every t < 2^8" free_bits=10
sqrt_vartime_forms!(c20_k8_sqrt_vartime_2_near_squares, 2, near_square());
//@ name=c20_k8_sqrt_2_all prop=C20,C11 tier=thorough profile=k8 funcs="Uint::sqrt,Uint::checked_sqrt" bound="u8 words, Uint<2>: every x" free_bits=16
sqrt_forms!(c20_k8_sqrt_2_all, 2, any_uint());
//@ name=c20_k8_sqrt_vartime_2_all prop=C20,C11,C15 tier=thorough profile=k8 funcs="Uint::sqrt_vartime,Uint::checked_sqrt_vartime" bound="u8 words, Uint<2>: every x" free_bits=16
sqrt_vartime_forms!(c20_k8_sqrt_vartime_2_all, 2, any_uint());
//@ name=c20_k8_sqrt_3_near_squares prop=C20,C11 tier=thorough profile=k8 funcs="Uint::sqrt,Uint::checked_sqrt" bound="u8 words, Uint<3> (BITS not a power of two): x in {t^2-1, t^2, t^2+1} for every t < 2^12" free_bits=14
sqrt_forms!(c20_k8_sqrt_3_near_squares, 3, near_square());
//@ name=c20_k8_sqrt_3_top prop=C20,C11 tier=thorough profile=k8 funcs="Uint::sqrt,Uint::checked_sqrt" bound="u8 words, Uint<3> (BITS not a power of two): x = [S(1), S(1), free]" free_bits=12
sqrt_forms!(c20_k8_sqrt_3_top, 3, Uint::new([Limb(shaped_word(1)), Limb(shaped_word(1)), Limb(kani::any())]));

macro_rules! boxed_sqrt {
    ($name:ident, $L:expr, $x:expr) => {
        #[kani::proof]
        #[kani::unwind(12)]
        fn $name() {
            const L: usize = $L;
            let xf: Uint<L> = $x;
            let xv = to_u64(&xf);
            let x = boxed_from(&words_of(&xf));
            let s = x.sqrt();
            let mut sv: u64 = 0;
            let mut i = 0;
            while i < L {
                sv |= (bword(&s, i) as u64) << (8 * i);
                i += 1;
            }
            assert!(s.nlimbs() == L && is_floor_sqrt(xv, sv));
            // boxed == fixed, limb for limb
            assert!(sv == to_u64(&xf.sqrt()));
            let c = x.checked_sqrt();
            assert!(bool::from(c.is_some()) == (sv * sv == xv));
            kani::cover!(xv == (sv + 1) * (sv + 1) - 1 && sv > 1);
            core::mem::forget((x, s, c));
        }
    };
}
//@ name=c20_k8_boxed_sqrt_1_all prop=C20,C11,C15 tier=quick profile=k8 funcs="BoxedUint::sqrt,BoxedUint::checked_sqrt,BoxedUint::div_rem" bound="u8 words, BoxedUint 1 limb: every x; equals Uint<1>::sqrt" free_bits=8 core=C15
boxed_sqrt!(c20_k8_boxed_sqrt_1_all, 1, any_uint());
//@ name=c20_k8_boxed_sqrt_2_near_squares prop=C20,C11,C15 tier=thorough profile=k8 funcs="BoxedUint::sqrt,BoxedUint::checked_sqrt" bound="u8 words, BoxedUint 2 limbs: x in {t^2-1, t^2, t^2+1} for every t < 2^8" free_bits=10
boxed_sqrt!(c20_k8_boxed_sqrt_2_near_squares, 2, near_square());
//@ name=c20_k8_boxed_sqrt_3_near_squares prop=C20,C11,C15 tier=thorough profile=k8 funcs="BoxedUint::sqrt,BoxedUint::checked_sqrt" bound="u8 words, BoxedUint 3 limbs (BITS not a power of two): x in {t^2-1, t^2, t^2+1} for t = 2^12 - S(3)" free_bits=6
boxed_sqrt!(c20_k8_boxed_sqrt_3_near_squares, 3, {
    let k: u64 = (kani::any::<u8>() & 7) as u64;
    let t = (1u64 << 12) - 1 - k;
    let d: u8 = kani::any();
    kani::assume(d < 3);
    from_u128((t * t + d as u64 - 1) as u128)
});

// ---------------------------------------------------------------- wider integers, nearly concrete inputs
/// x = t^2 + d - 1 (d in 0..3) for t = 2^(4L-1) + k or t = 2^(4L) - 1 - k, k in 0..4: the roots just
/// above 2^(BITS/2 - 1) and just below 2^(BITS/2), where the iteration count and the final
/// correction of the Newton loop are tight.  Only 5 free bits: symex folds most of the work.
fn near_extreme_square<const L: usize>() -> Uint<L> {
    let k: u64 = (kani::any::<u8>() & 3) as u64;
    let hi: bool = kani::any();
    let t = if hi { (1u64 << (4 * L)) - 1 - k } else { (1u64 << (4 * L - 1)) + k };
    let d: u8 = kani::any();
    kani::assume(d < 3);
    from_u128((t * t + d as u64 - 1) as u128)
}
//@ name=c20_k8_sqrt_3_extreme prop=C20,C11 tier=thorough profile=k8 funcs="Uint::sqrt,Uint::wrapping_sqrt,Uint::checked_sqrt,SquareRoot::sqrt" bound="u8 words, Uint<3>: x in {t^2-1,t^2,t^2+1}, t = 2^11 + (0..3) or 2^12 - 1 - (0..3)" free_bits=5
sqrt_forms!(c20_k8_sqrt_3_extreme, 3, near_extreme_square());
//@ name=c20_k8_boxed_sqrt_3_extreme prop=C20,C11,C15 tier=thorough profile=k8 funcs="BoxedUint::sqrt,BoxedUint::checked_sqrt" bound="u8 words, BoxedUint 3 limbs: x in {t^2-1,t^2,t^2+1}, t = 2^11 + (0..3) or 2^12 - 1 - (0..3); equals Uint<3>::sqrt" free_bits=5
boxed_sqrt!(c20_k8_boxed_sqrt_3_extreme, 3, near_extreme_square());

macro_rules! boxed_sqrt_vartime {
    ($name:ident, $L:expr, $x:expr) => {
        #[kani::proof]
        #[kani::unwind(12)]
        fn $name() {
            const L: usize = $L;
            let xf: Uint<L> = $x;
            let xv = to_u64(&xf);
            let x = boxed_from(&words_of(&xf));
            let s = x.sqrt_vartime();
            let mut sv: u64 = 0;
            let mut i = 0;
            while i < L {
                sv |= (bword(&s, i) as u64) << (8 * i);
                i += 1;
            }
            assert!(s.nlimbs() == L && is_floor_sqrt(xv, sv));
            let w = x.wrapping_sqrt_vartime();
            assert!(bword(&w, 0) == bword(&s, 0) && bword(&w, L - 1) == bword(&s, L - 1));
            let c = x.checked_sqrt_vartime();
            assert!(bool::from(c.is_some()) == (sv * sv == xv));
            kani::cover!(xv == (sv + 1) * (sv + 1) - 1 && sv > 1);
            core::mem::forget((x, s, w, c));
        }
    };
}
