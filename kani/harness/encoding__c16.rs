//! C16 — byte / hex / word / primitive conversions (k64, all values).  Child of `uint::encoding`
//! so that the private `decode_nibble` is reachable.
use super::{decode_hex_byte, decode_nibble};
use crate::__verif_common::boxed::*;
use crate::__verif_common::*;
use crate::{BoxedUint, DecodeError, Encoding, Int, Limb, Uint, Word, I128, I64, U128, U192, U256, U64};

fn ref_nibble(c: u8) -> Option<u8> {
    match c {
        b'0'..=b'9' => Some(c - b'0'),
        b'a'..=b'f' => Some(c - b'a' + 10),
        b'A'..=b'F' => Some(c - b'A' + 10),
        _ => None,
    }
}

//@ prop=C16,C11 tier=quick profile=k64 funcs="decode_nibble,decode_hex_byte" bound="all 256 byte values / all 65536 byte pairs" free_bits=24
#[kani::proof]
fn c16_hex_nibble_and_byte_all() {
    let c: u8 = kani::any();
    let n = decode_nibble(c);
    match ref_nibble(c) {
        Some(v) => assert!(n == v as u16),
        None => assert!(n > 0xff), // flagged as invalid
    }
    let d: u8 = kani::any();
    let (val, err) = decode_hex_byte([c, d]);
    match (ref_nibble(c), ref_nibble(d)) {
        (Some(h), Some(l)) => assert!(err == 0 && val == (h << 4) | l),
        _ => assert!(err != 0),
    }
    kani::cover!(c == b'G' || c == b'`' || c == b'@' || c == b'/' || c == b':' || c == b'g');
    kani::cover!(c >= 0x80);
}

fn hex_of(n: u8, upper: bool) -> u8 {
    if n < 10 {
        b'0' + n
    } else if upper {
        b'A' + n - 10
    } else {
        b'a' + n - 10
    }
}

//@ prop=C16,C11 tier=quick profile=k64 funcs="Uint::from_be_hex,Uint::from_le_hex,Int::from_be_hex,Int::from_le_hex" bound="U128: every well-formed 32-digit hex string (either case per digit): value decoded positionally in the stated byte order" free_bits=160
#[kani::proof]
#[kani::unwind(36)]
fn c16_uint2_hex_wellformed() {
    let v: u128 = kani::any();
    let case: u32 = kani::any();
    let mut s = [0u8; 32];
    let mut i = 0;
    while i < 32 {
        s[i] = hex_of(((v >> (4 * (31 - i))) & 0xf) as u8, (case >> i) & 1 == 1);
        i += 1;
    }
    let txt = unsafe { core::str::from_utf8_unchecked(&s) };
    assert!(to_u128(&U128::from_be_hex(txt)) == v);
    assert!(to_u128(&U128::from_le_hex(txt)) == v.swap_bytes());
    assert!(to_u128(I128::from_be_hex(txt).as_uint()) == v);
}

//@ prop=C16,C11 tier=quick profile=k64 funcs="Uint::from_be_hex,Uint::from_le_hex" bound="U64: every 16-byte ASCII string containing at least one non-hex character: must panic (never decoded)" free_bits=112 must_panic=1
#[kani::proof]
#[kani::unwind(20)]
fn c16_uint1_hex_malformed_panics() {
    let s: [u8; 16] = kani::any();
    let mut all_ascii = true;
    let mut all_hex = true;
    let mut i = 0;
    while i < 16 {
        all_ascii &= s[i] < 0x80;
        all_hex &= ref_nibble(s[i]).is_some();
        i += 1;
    }
    kani::assume(all_ascii && !all_hex);
    let txt = unsafe { core::str::from_utf8_unchecked(&s) };
    let le: bool = kani::any();
    if le {
        let _ = U64::from_le_hex(txt);
    } else {
        let _ = U64::from_be_hex(txt);
    }
    must_have_panicked();
}

//@ prop=C16,C11 tier=quick profile=k64 funcs="BoxedUint::from_be_hex" bound="64-bit precision: every 16-byte ASCII string: none exactly when malformed, else the big-endian value" free_bits=112
#[kani::proof]
#[kani::unwind(20)]
fn c16_boxed_hex_all_ascii() {
    let s: [u8; 16] = kani::any();
    let mut all_hex = true;
    let mut v: u64 = 0;
    let mut i = 0;
    while i < 16 {
        kani::assume(s[i] < 0x80);
        match ref_nibble(s[i]) {
            Some(n) => v = (v << 4) | n as u64,
            None => all_hex = false,
        }
        i += 1;
    }
    let txt = unsafe { core::str::from_utf8_unchecked(&s) };
    let r = BoxedUint::from_be_hex(txt, 64);
    assert!(bool::from(r.is_some()) == all_hex);
    if all_hex {
        let b = r.unwrap();
        assert!(b.nlimbs() == 1 && bword(&b, 0) == v);
        core::mem::forget(b);
    }
    kani::cover!(all_hex);
    kani::cover!(!all_hex);
}

// ---------------------------------------------------------------- bytes: positional + mutually inverse
//@ prop=C16,C11,C15 tier=quick profile=k64 funcs="U128::to_be_bytes,U128::to_le_bytes,Encoding::{to,from}_{be,le}_bytes,Uint::from_be_slice,Uint::from_le_slice,Int::to_be_bytes,Limb Encoding" bound="U128 / I128 / Limb: all values and all byte strings, symbolic byte index" free_bits=260 core=C15
#[kani::proof]
#[kani::unwind(20)]
fn c16_uint2_bytes_positional() {
    let x: U128 = any_uint();
    let v = to_u128(&x);
    let i: usize = kani::any();
    kani::assume(i < 16);
    let be = x.to_be_bytes();
    let le = x.to_le_bytes();
    assert!(be[i] == (v >> (8 * (15 - i))) as u8);
    assert!(le[i] == (v >> (8 * i)) as u8);
    assert!(Encoding::to_be_bytes(&x)[i] == be[i] && Encoding::to_le_bytes(&x)[i] == le[i]);
    assert!(U128::from_be_bytes(be) == x && U128::from_le_bytes(le) == x);
    assert!(U128::from_be_slice(&be) == x && U128::from_le_slice(&le) == x);
    // decode(encode) over arbitrary byte strings
    let b: [u8; 16] = kani::any();
    assert!(to_u128(&U128::from_be_bytes(b)) == u128::from_be_bytes(b));
    assert!(to_u128(&U128::from_le_bytes(b)) == u128::from_le_bytes(b));
    assert!(U128::from_be_slice(&b).to_be_bytes()[i] == b[i]);
    assert!(U128::from_le_slice(&b).to_le_bytes()[i] == b[i]);
    // signed and limb
    let w: Word = kani::any();
    let j: usize = kani::any();
    kani::assume(j < 8);
    assert!(Encoding::to_be_bytes(&Limb(w))[j] == (w >> (8 * (7 - j))) as u8);
    assert!(Encoding::to_le_bytes(&Limb(w))[j] == (w >> (8 * j)) as u8);
    assert!(Limb::from_be_bytes(w.to_be_bytes()).0 == w && Limb::from_le_bytes(w.to_le_bytes()).0 == w);
}

macro_rules! bytes_positional_wide {
    ($name:ident, $T:ty, $L:expr) => {
        #[kani::proof]
        #[kani::unwind(36)]
        fn $name() {
            const N: usize = 8 * $L;
            let x: $T = any_uint();
            let xw = words_of(&x);
            let i: usize = kani::any();
            kani::assume(i < N);
            let be = x.to_be_bytes();
            let le = x.to_le_bytes();
            // byte k (little-endian numbering) = word k/8 >> 8*(k%8)
            let k = N - 1 - i;
            assert!(be[i] == (xw[k / 8] >> (8 * (k % 8))) as u8);
            assert!(le[i] == (xw[i / 8] >> (8 * (i % 8))) as u8);
            assert!(<$T>::from_be_slice(&be) == x && <$T>::from_le_slice(&le) == x);
            assert!(<$T as Encoding>::from_be_bytes(be) == x && <$T as Encoding>::from_le_bytes(le) == x);
            let b: [u8; N] = kani::any();
            let y = <$T>::from_be_slice(&b);
            let yw = words_of(&y);
            assert!(b[i] == (yw[k / 8] >> (8 * (k % 8))) as u8);
            let z = <$T>::from_le_slice(&b);
            let zw = words_of(&z);
            assert!(b[i] == (zw[i / 8] >> (8 * (i % 8))) as u8);
        }
    };
}
//@ name=c16_uint1_bytes_positional prop=C16,C11,C18 tier=quick profile=k64 funcs="U64::to_be_bytes,to_le_bytes,from_be_slice,from_le_slice,Encoding" bound="U64 (odd limb count): all values / byte strings, symbolic byte index" free_bits=132
bytes_positional_wide!(c16_uint1_bytes_positional, U64, 1);
//@ name=c16_uint3_bytes_positional prop=C16,C11,C18 tier=quick profile=k64 funcs="U192::to_be_bytes,to_le_bytes,from_be_slice,from_le_slice,Encoding" bound="U192 (odd limb count): all values / byte strings, symbolic byte index" free_bits=390
bytes_positional_wide!(c16_uint3_bytes_positional, U192, 3);
//@ name=c16_uint4_bytes_positional prop=C16,C11,C18 tier=quick profile=k64 funcs="U256::to_be_bytes,to_le_bytes,from_be_slice,from_le_slice,Encoding" bound="U256: all values / byte strings, symbolic byte index" free_bits=518
bytes_positional_wide!(c16_uint4_bytes_positional, U256, 4);

//@ prop=C16,C11 tier=quick profile=k64 funcs="Uint::from_be_slice,Uint::from_le_slice" bound="U128: every slice length 0..=24 other than 16: must panic" free_bits=8 must_panic=1
#[kani::proof]
#[kani::unwind(28)]
fn c16_from_slice_wrong_len_panics() {
    let b = [0u8; 24];
    let n: usize = kani::any();
    kani::assume(n <= 24 && n != 16);
    let le: bool = kani::any();
    if le {
        let _ = U128::from_le_slice(&b[..n]);
    } else {
        let _ = U128::from_be_slice(&b[..n]);
    }
    must_have_panicked();
}

// ---------------------------------------------------------------- primitives, words, concat/split/resize
//@ prop=C16,C11 tier=quick profile=k64 funcs="Uint::from_u8,from_u16,from_u32,from_u64,from_u128,from_word,from_wide_word,From<u*>,From<U64> for u64,From<U128> for u128,from_words,to_words,as_words,to_limbs,From<[Word;N]>,Limb::from_u*" bound="every primitive value; targets Uint<1>, Uint<2>, Uint<3>" free_bits=500
#[kani::proof]
#[kani::unwind(8)]
fn c16_primitive_and_word_conversions() {
    let a: u8 = kani::any();
    let b: u16 = kani::any();
    let c: u32 = kani::any();
    let d: u64 = kani::any();
    let e: u128 = kani::any();
    assert!(to_u128(&Uint::<1>::from_u8(a)) == a as u128 && to_u128(&Uint::<3>::from(a)) == a as u128);
    assert!(to_u128(&Uint::<1>::from_u16(b)) == b as u128 && to_u128(&Uint::<3>::from(b)) == b as u128);
    assert!(to_u128(&Uint::<1>::from_u32(c)) == c as u128 && to_u128(&Uint::<3>::from(c)) == c as u128);
    assert!(to_u128(&Uint::<1>::from_u64(d)) == d as u128 && to_u128(&Uint::<3>::from(d)) == d as u128);
    assert!(to_u128(&Uint::<2>::from_u128(e)) == e && to_u128(&Uint::<2>::from(e)) == e);
    let e3 = Uint::<3>::from_u128(e);
    assert!(to_u128(&e3) == e && e3.as_limbs()[2].0 == 0);
    assert!(to_u128(&Uint::<3>::from_word(d)) == d as u128 && Uint::<3>::from_word(d).as_limbs()[2].0 == 0);
    assert!(to_u128(&Uint::<3>::from_wide_word(e)) == e && Uint::<3>::from_wide_word(e).as_limbs()[2].0 == 0);
    assert!(u64::from(U64::from_u64(d)) == d && u128::from(U128::from_u128(e)) == e);
    assert!(Limb::from_u8(a).0 == a as Word && Limb::from_u16(b).0 == b as Word && Limb::from_u32(c).0 == c as Word && Limb::from_u64(d).0 == d);
    assert!(Limb::from(a).0 == a as Word && Limb::from(b).0 == b as Word && Limb::from(c).0 == c as Word && Limb::from(d).0 == d);
    assert!(Word::from(Limb(d)) == d && u128::from(Limb(d)) == d as u128);
    let w: [Word; 3] = any_words();
    let x = Uint::<3>::from_words(w);
    assert!(words_eq(&x.to_words(), &w) && words_eq(x.as_words(), &w) && words_eq(&words_of(&x), &w));
    assert!(Uint::<3>::from(w) == x && words_eq(&<[Word; 3]>::from(x), &w));
    let l = x.to_limbs();
    assert!(l[0].0 == w[0] && l[1].0 == w[1] && l[2].0 == w[2] && Uint::<3>::new(l) == x);
    let mut y = x;
    y.as_words_mut()[1] = d;
    assert!(y.as_limbs()[1].0 == d && y.as_limbs()[0].0 == w[0] && y.as_limbs()[2].0 == w[2]);
}

//@ prop=C16,C11 tier=quick profile=k64 funcs="Uint::concat,Uint::concat_mixed,Uint::split,Uint::split_mixed,Uint::resize,Concat,Split,ConcatMixed,SplitMixed" bound="U128+U128 -> U256, U64+U128 -> U192, resize 3<->5 limbs: all values" free_bits=512
#[kani::proof]
#[kani::unwind(8)]
fn c16_concat_split_resize() {
    use crate::{Concat, ConcatMixed, Split, SplitMixed};
    let lo: U128 = any_uint();
    let hi: U128 = any_uint();
    let c: U256 = lo.concat(&hi);
    let cw = words_of(&c);
    assert!(cw[0] == lo.as_limbs()[0].0 && cw[1] == lo.as_limbs()[1].0 && cw[2] == hi.as_limbs()[0].0 && cw[3] == hi.as_limbs()[1].0);
    assert!(Concat::concat(&lo, &hi) == c);
    let (l2, h2) = c.split();
    assert!(l2 == lo && h2 == hi);
    let (l3, h3): (U128, U128) = Split::split(&c);
    assert!(l3 == lo && h3 == hi);
    let a: U64 = any_uint();
    let m: U192 = Uint::concat_mixed(&a, &lo);
    let mw = words_of(&m);
    assert!(mw[0] == a.as_limbs()[0].0 && mw[1] == lo.as_limbs()[0].0 && mw[2] == lo.as_limbs()[1].0);
    assert!(ConcatMixed::concat_mixed(&a, &lo) == m);
    let (a2, lo2): (U64, U128) = m.split_mixed();
    assert!(a2 == a && lo2 == lo);
    let (a3, lo3): (U64, U128) = SplitMixed::split_mixed(&m);
    assert!(a3 == a && lo3 == lo);
    // resize: zero-extend / truncate
    let x: Uint<3> = any_uint();
    let up: Uint<5> = x.resize();
    let uw = words_of(&up);
    assert!(uw[0] == x.as_limbs()[0].0 && uw[1] == x.as_limbs()[1].0 && uw[2] == x.as_limbs()[2].0 && uw[3] == 0 && uw[4] == 0);
    let down: Uint<2> = x.resize();
    assert!(down.as_limbs()[0].0 == x.as_limbs()[0].0 && down.as_limbs()[1].0 == x.as_limbs()[1].0);
    assert!(Uint::<3>::from(&down).as_limbs()[2].0 == 0);
}

//@ prop=C16,C13,C11 tier=quick profile=k64 funcs="Int::from_i8,from_i16,from_i32,from_i64,from_i128,From<i*> for Int,From<I64> for i64,From<I128> for i128,Int::resize" bound="every primitive value; targets Int<1..4>; resize 2->4 and 4->2 limbs, all values" free_bits=380
#[kani::proof]
#[kani::unwind(8)]
fn c16_signed_conversions() {
    let a: i8 = kani::any();
    let b: i16 = kani::any();
    let c: i32 = kani::any();
    let d: i64 = kani::any();
    let e: i128 = kani::any();
    // sign extension into 3 limbs: low 128 bits = value as i128, top limb = sign fill
    fn chk3(x: Int<3>, v: i128) -> bool {
        let w = words_of(x.as_uint());
        let fill = if v < 0 { Word::MAX } else { 0 };
        to_u128(x.as_uint()) == v as u128 && w[2] == fill
    }
    assert!(chk3(Int::<3>::from_i8(a), a as i128) && chk3(Int::<3>::from(a), a as i128));
    assert!(chk3(Int::<3>::from_i16(b), b as i128) && chk3(Int::<3>::from(b), b as i128));
    assert!(chk3(Int::<3>::from_i32(c), c as i128) && chk3(Int::<3>::from(c), c as i128));
    assert!(chk3(Int::<3>::from_i64(d), d as i128) && chk3(Int::<3>::from(d), d as i128));
    assert!(chk3(Int::<3>::from_i128(e), e) && chk3(Int::<3>::from(e), e));
    let e4 = Int::<4>::from_i128(e);
    let w4 = words_of(e4.as_uint());
    assert!(to_u128(e4.as_uint()) == e as u128 && w4[2] == w4[3] && w4[3] == if e < 0 { Word::MAX } else { 0 });
    assert!(to_u128(Int::<2>::from_i128(e).as_uint()) == e as u128);
    assert!(to_u128(Int::<1>::from_i64(d).as_uint()) as u64 == d as u64);
    assert!(i64::from(I64::from_i64(d)) == d && i128::from(I128::from_i128(e)) == e);
    // resize
    let x: Int<2> = Int::from_bits(any_uint());
    let up: Int<4> = x.resize();
    let uw = words_of(up.as_uint());
    let neg = x.is_negative().to_bool_vartime();
    assert!(to_u128(up.as_uint()) == to_u128(x.as_uint()) && uw[2] == uw[3] && uw[3] == if neg { Word::MAX } else { 0 });
    let y: Int<4> = Int::from_bits(any_uint());
    let down: Int<2> = y.resize();
    assert!(to_u128(down.as_uint()) == to_u128(y.as_uint()));
    kani::cover!(e < 0);
    kani::cover!(a < 0 && b >= 0);
}

// ---------------------------------------------------------------- boxed slices: length / precision errors
macro_rules! boxed_from_slice {
    ($name:ident, $prec:expr) => {
        #[kani::proof]
        #[kani::unwind(16)]
        fn $name() {
            const PREC: u32 = $prec;
            const MAXLEN: usize = ((PREC as usize) + 7) / 8 + 2;
            let buf: [u8; MAXLEN] = kani::any();
            let len: usize = kani::any();
            kani::assume(len <= MAXLEN);
            let be: bool = kani::any();
            let bytes = &buf[..len];
            // value of the byte string (fits in u128 because MAXLEN <= 16)
            let mut v: u128 = 0;
            let mut i = 0;
            while i < MAXLEN {
                if i < len {
                    if be {
                        v = (v << 8) | bytes[i] as u128;
                    } else {
                        v |= (bytes[i] as u128) << (8 * i);
                    }
                }
                i += 1;
            }
            let r = if be { BoxedUint::from_be_slice(bytes, PREC) } else { BoxedUint::from_le_slice(bytes, PREC) };
            let too_long = len > ((PREC as usize) + 7) / 8;
            let too_big = PREC < 128 && (v >> PREC) != 0;
            match r {
                Ok(x) => {
                    assert!(!too_long && !too_big);
                    assert!(x.bits_precision() >= PREC && x.bits_precision() < PREC + 64 + (PREC == 0) as u32 * 64);
                    let xw: [Word; 2] = bwords(&x);
                    assert!((xw[0] as u128) | ((xw[1] as u128) << 64) == v);
                    core::mem::forget(x);
                }
                Err(DecodeError::InputSize) => assert!(too_long),
                Err(DecodeError::Precision) => assert!(!too_long && too_big),
                Err(_) => assert!(false),
            }
            kani::cover!(too_long);
            kani::cover!(!too_long && too_big || PREC % 8 == 0);
            kani::cover!(!too_long && !too_big && (len > 0 || PREC == 0));
        }
    };
}
//@ name=c16_boxed_from_slice_p0 prop=C16,C11 tier=quick profile=k64 funcs="BoxedUint::from_be_slice,BoxedUint::from_le_slice" bound="bits_precision=0, every length 0..=2, every content" free_bits=20 core=C11
boxed_from_slice!(c16_boxed_from_slice_p0, 0);
//@ name=c16_boxed_from_slice_p7 prop=C16,C11 tier=quick profile=k64 funcs="BoxedUint::from_be_slice,BoxedUint::from_le_slice" bound="bits_precision=7, every length 0..=3, every content" free_bits=28
boxed_from_slice!(c16_boxed_from_slice_p7, 7);
//@ name=c16_boxed_from_slice_p9 prop=C16,C11 tier=quick profile=k64 funcs="BoxedUint::from_be_slice,BoxedUint::from_le_slice" bound="bits_precision=9, every length 0..=4, every content" free_bits=36
boxed_from_slice!(c16_boxed_from_slice_p9, 9);
//@ name=c16_boxed_from_slice_p64 prop=C16,C11 tier=quick profile=k64 funcs="BoxedUint::from_be_slice,BoxedUint::from_le_slice" bound="bits_precision=64, every length 0..=10, every content" free_bits=84 core=C11
boxed_from_slice!(c16_boxed_from_slice_p64, 64);
//@ name=c16_boxed_from_slice_p65 prop=C16,C11 tier=quick profile=k64 funcs="BoxedUint::from_be_slice,BoxedUint::from_le_slice" bound="bits_precision=65, every length 0..=11, every content" free_bits=92
boxed_from_slice!(c16_boxed_from_slice_p65, 65);
//@ name=c16_boxed_from_slice_p72 prop=C16,C11 tier=quick profile=k64 funcs="BoxedUint::from_be_slice,BoxedUint::from_le_slice" bound="bits_precision=72, every length 0..=11, every content" free_bits=92
boxed_from_slice!(c16_boxed_from_slice_p72, 72);
//@ name=c16_boxed_from_slice_p63 prop=C16,C11 tier=thorough profile=k64 funcs="BoxedUint::from_be_slice,BoxedUint::from_le_slice" bound="bits_precision=63, every length 0..=10, every content" free_bits=84
boxed_from_slice!(c16_boxed_from_slice_p63, 63);
//@ name=c16_boxed_from_slice_p80 prop=C16,C11 tier=thorough profile=k64 funcs="BoxedUint::from_be_slice,BoxedUint::from_le_slice" bound="bits_precision=80, every length 0..=12, every content" free_bits=100
boxed_from_slice!(c16_boxed_from_slice_p80, 80);
//@ name=c16_boxed_from_slice_p8 prop=C16,C11 tier=thorough profile=k64 funcs="BoxedUint::from_be_slice,BoxedUint::from_le_slice" bound="bits_precision=8, every length 0..=3, every content" free_bits=28
boxed_from_slice!(c16_boxed_from_slice_p8, 8);

//@ prop=C16,C11,C15 tier=quick profile=k64 funcs="BoxedUint::to_be_bytes,BoxedUint::to_le_bytes,BoxedUint::widen,BoxedUint::shorten,BoxedUint::from_words,to_words,From<Uint> for BoxedUint,From<u*> for BoxedUint" bound="BoxedUint 2 limbs: all values; widen to 192, shorten to 64; symbolic byte index" free_bits=140 core=C15
#[kani::proof]
#[kani::unwind(20)]
fn c16_boxed_bytes_widen_shorten() {
    let x = any_boxed(2);
    let xw: [Word; 2] = bwords(&x);
    let v = (xw[0] as u128) | ((xw[1] as u128) << 64);
    let i: usize = kani::any();
    kani::assume(i < 16);
    let be = x.to_be_bytes();
    let le = x.to_le_bytes();
    assert!(be.len() == 16 && le.len() == 16);
    assert!(be[i] == (v >> (8 * (15 - i))) as u8 && le[i] == (v >> (8 * i)) as u8);
    let w = x.widen(192);
    assert!(w.nlimbs() == 3 && bword(&w, 0) == xw[0] && bword(&w, 1) == xw[1] && bword(&w, 2) == 0);
    let s = x.shorten(64);
    assert!(s.nlimbs() == 1 && bword(&s, 0) == xw[0]);
    let f = BoxedUint::from(U128::from_u128(v));
    assert!(f.nlimbs() == 2 && bword(&f, 0) == xw[0] && bword(&f, 1) == xw[1]);
    let g = BoxedUint::from(v);
    assert!(bword(&g, 0) == xw[0] && bword(&g, 1) == xw[1]);
    let h = BoxedUint::from(xw[0]);
    assert!(bword(&h, 0) == xw[0] && h.nlimbs() == 1);
    core::mem::forget((x, be, le, w, s, f, g, h));
}
