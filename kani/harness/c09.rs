//! C09 — pow / multi-exponentiation / lincomb.  k8.  Compositional on C08: the windowed ladder is
//! compared with a bit-serial square-and-multiply built from the crate's own (C08-checked)
//! MontyForm::mul / square, and lincomb with the fold of single REDC products.
use crate::__verif_common::*;
use crate::modular::{MontyForm, MontyParams};
use crate::{Limb, MultiExponentiate, MultiExponentiateBoundedExp, Odd, PowBoundedExp, Uint, Word};

fn odd1(m: Word) -> Odd<Uint<1>> {
    Odd::new(Uint::<1>::new([Limb(m)])).unwrap()
}

/// base^(e mod 2^k) by left-to-right binary square-and-multiply on Montgomery forms.
fn ladder<const L: usize, const E: usize>(base: &MontyForm<L>, e: &Uint<E>, k: u32, params: MontyParams<L>) -> MontyForm<L> {
    let mut z = MontyForm::one(params);
    let mut i = k;
    while i > 0 {
        i -= 1;
        z = z.square();
        if e.bit_vartime(i) {
            z = z.mul(base);
        }
    }
    z
}

macro_rules! pow_k {
    ($name:ident, $E:expr, $k:expr) => {
        #[kani::proof]
        #[kani::unwind(20)]
        fn $name() {
            let m: Word = shaped_signed_top(2) | 1;
            kani::assume(m >= 3);
            let params = MontyParams::new(odd1(m));
            let x: Word = shaped_word(2);
            kani::assume(x < m);
            let base = MontyForm::from_montgomery(Uint::<1>::new([Limb(x)]), params);
            let e: Uint<$E> = any_uint(); // bits at and above k are free too: they must be ignored
            let r = base.pow_bounded_exp(&e, $k);
            let want = ladder(&base, &e, $k, params);
            assert!(r.as_montgomery() == want.as_montgomery());
            assert!(to_u64(r.as_montgomery()) < m as u64);
            assert!(PowBoundedExp::pow_bounded_exp(&base, &e, $k).as_montgomery() == r.as_montgomery());
            if $k == Uint::<$E>::BITS {
                assert!(base.pow(&e).as_montgomery() == r.as_montgomery());
            }
            kani::cover!(x == m - 1);
            kani::cover!(x == 0);
            kani::cover!($k == 0 || e.bit_vartime($k - 1));
        }
    };
}
//@ name=c09_k8_pow_k0 prop=C09,C11 tier=quick profile=k8 funcs="MontyForm::pow_bounded_exp,pow_montgomery_form,multi_exponentiate_montgomery_form_array" bound="u8 words, 1 limb, exponent bound k=0: m=S(2)^sign|1, base S(2), every 8-bit exponent: result is one" free_bits=17
pow_k!(c09_k8_pow_k0, 1, 0);
//@ name=c09_k8_pow_k1 prop=C09,C11 tier=quick profile=k8 funcs="MontyForm::pow_bounded_exp,pow_montgomery_form,compute_powers,multi_exponentiate_montgomery_form_internal" bound="u8 words, 1 limb, k=1: m=S(2)^sign|1, base S(2), every 8-bit exponent (high bits must be ignored)" free_bits=17
pow_k!(c09_k8_pow_k1, 1, 1);
//@ name=c09_k8_pow_k3 prop=C09,C11 tier=quick profile=k8 funcs="MontyForm::pow_bounded_exp,pow_montgomery_form,compute_powers,multi_exponentiate_montgomery_form_internal" bound="u8 words, 1 limb, k=3 (inside a window): m=S(2)^sign|1, base S(2), every 8-bit exponent" free_bits=17
pow_k!(c09_k8_pow_k3, 1, 3);
//@ name=c09_k8_pow_k4 prop=C09,C11 tier=quick profile=k8 funcs="MontyForm::pow_bounded_exp,pow_montgomery_form,compute_powers,multi_exponentiate_montgomery_form_internal" bound="u8 words, 1 limb, k=4 (window boundary): m=S(2)^sign|1, base S(2), every 8-bit exponent" free_bits=17
pow_k!(c09_k8_pow_k4, 1, 4);
//@ name=c09_k8_pow_k5 prop=C09,C11 tier=quick profile=k8 funcs="MontyForm::pow_bounded_exp,pow_montgomery_form,compute_powers,multi_exponentiate_montgomery_form_internal" bound="u8 words, 1 limb, k=5: m=S(2)^sign|1, base S(2), every 8-bit exponent" free_bits=17
pow_k!(c09_k8_pow_k5, 1, 5);
//@ name=c09_k8_pow_k8 prop=C09,C11 tier=quick profile=k8 funcs="MontyForm::pow_bounded_exp,MontyForm::pow,pow_montgomery_form,compute_powers,multi_exponentiate_montgomery_form_internal" bound="u8 words, 1 limb, k=8 = BITS (limb boundary; pow): m=S(2)^sign|1, base S(2), every 8-bit exponent" free_bits=17
pow_k!(c09_k8_pow_k8, 1, 8);
//@ name=c09_k8_pow_k9_e2 prop=C09,C11 tier=thorough profile=k8 funcs="MontyForm::pow_bounded_exp (exponent wider than the base)" bound="u8 words, base 1 limb, exponent 2 limbs, k=9 (first bit of the second limb): every 16-bit exponent" free_bits=25
pow_k!(c09_k8_pow_k9_e2, 2, 9);
//@ name=c09_k8_pow_k13_e2 prop=C09,C11 tier=thorough profile=k8 funcs="MontyForm::pow_bounded_exp (exponent wider than the base)" bound="u8 words, base 1 limb, exponent 2 limbs, k=13: every 16-bit exponent" free_bits=25
pow_k!(c09_k8_pow_k13_e2, 2, 13);
//@ name=c09_k8_pow_k2 prop=C09,C11 tier=thorough profile=k8 funcs="MontyForm::pow_bounded_exp" bound="u8 words, 1 limb, k=2" free_bits=17
pow_k!(c09_k8_pow_k2, 1, 2);
//@ name=c09_k8_pow_k6 prop=C09,C11 tier=thorough profile=k8 funcs="MontyForm::pow_bounded_exp" bound="u8 words, 1 limb, k=6" free_bits=17
pow_k!(c09_k8_pow_k6, 1, 6);
//@ name=c09_k8_pow_k7 prop=C09,C11 tier=thorough profile=k8 funcs="MontyForm::pow_bounded_exp" bound="u8 words, 1 limb, k=7" free_bits=17
pow_k!(c09_k8_pow_k7, 1, 7);

macro_rules! multi_exp_k {
    ($name:ident, $k:expr) => {
        #[kani::proof]
        #[kani::unwind(20)]
        fn $name() {
            let m: Word = shaped_signed_top(1) | 1;
            kani::assume(m >= 3);
            let params = MontyParams::new(odd1(m));
            let x: Word = shaped_word(1);
            let y: Word = shaped_word(1);
            kani::assume(x < m && y < m);
            let bx = MontyForm::from_montgomery(Uint::<1>::new([Limb(x)]), params);
            let by = MontyForm::from_montgomery(Uint::<1>::new([Limb(y)]), params);
            let e1: Uint<1> = any_uint();
            let e2: Uint<1> = any_uint();
            let r = MontyForm::multi_exponentiate_bounded_exp(&[(bx, e1), (by, e2)], $k);
            let want = ladder(&bx, &e1, $k, params).mul(&ladder(&by, &e2, $k, params));
            assert!(r.as_montgomery() == want.as_montgomery());
            let rs = <MontyForm<1> as MultiExponentiateBoundedExp<Uint<1>, [(MontyForm<1>, Uint<1>)]>>::multi_exponentiate_bounded_exp(&[(bx, e1), (by, e2)][..], $k);
            assert!(rs.as_montgomery() == r.as_montgomery());
            kani::cover!($k == 8 || e2.bit_vartime($k)); // a bit just above the bound is set in the second exponent
        }
    };
}
//@ name=c09_k8_multi_exp_k5 prop=C09,C11,C15 tier=quick profile=k8 funcs="MultiExponentiateBoundedExp (array and slice),multi_exponentiate_montgomery_form_array,multi_exponentiate_montgomery_form_slice,multi_exponentiate_montgomery_form_internal" bound="u8 words, 1 limb, 2 bases, k=5: m=S(1)^sign|1, bases S(1), every pair of 8-bit exponents: equals the product of the single powers" free_bits=23
multi_exp_k!(c09_k8_multi_exp_k5, 5);
//@ name=c09_k8_multi_exp_k2 prop=C09,C11,C15 tier=quick profile=k8 funcs="MultiExponentiateBoundedExp (array and slice),multi_exponentiate_montgomery_form_internal" bound="u8 words, 1 limb, 2 bases, k=2" free_bits=23 core=C15
multi_exp_k!(c09_k8_multi_exp_k2, 2);
//@ name=c09_k8_multi_exp_k8 prop=C09,C11,C15 tier=thorough profile=k8 funcs="MultiExponentiateBoundedExp (array and slice)" bound="u8 words, 1 limb, 2 bases, k=8" free_bits=23
multi_exp_k!(c09_k8_multi_exp_k8, 8);

