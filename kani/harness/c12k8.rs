//! C12 (k8 part) — hex decoding into the Odd wrapper over *arbitrary* (garbage included) ASCII
//! strings: with 8-bit words a U16 numeral is 4 characters, so every string is enumerable by the solver.
use crate::__verif_common::*;
use crate::{Odd, U16};

fn hexval(c: u8) -> Option<u8> {
    match c {
        b'0'..=b'9' => Some(c - b'0'),
        b'a'..=b'f' => Some(c - b'a' + 10),
        b'A'..=b'F' => Some(c - b'A' + 10),
        _ => None,
    }
}
fn decode(s: &[u8; 4]) -> Option<u16> {
    let mut v: u16 = 0;
    let mut i = 0;
    while i < 4 {
        match hexval(s[i]) {
            Some(d) => v = (v << 4) | d as u16,
            None => return None,
        }
        i += 1;
    }
    Some(v)
}

//@ prop=C12,C16,C11 tier=quick profile=k8 funcs="Odd::from_be_hex,Odd::from_le_hex,Uint::from_be_hex,Uint::from_le_hex,decode_hex_byte,decode_nibble" bound="u8 words, U16: every 4-character ASCII string (garbage included): a returned value is odd and is the numeral's value in the stated byte order; anything else must have panicked" free_bits=29 may_panic=1
#[kani::proof]
#[kani::unwind(6)]
fn c12_k8_odd_hex_any_string() {
    let s: [u8; 4] = kani::any();
    kani::assume(s[0] < 0x80 && s[1] < 0x80 && s[2] < 0x80 && s[3] < 0x80);
    let txt = core::str::from_utf8(&s).unwrap();
    let le: bool = kani::any();
    let d = decode(&s);
    let o = if le { Odd::<U16>::from_le_hex(txt) } else { Odd::<U16>::from_be_hex(txt) };
    // reached only if the decoder did not panic
    let got = to_u64(o.as_ref()) as u16;
    assert!(d.is_some());
    let want = if le { d.unwrap().swap_bytes() } else { d.unwrap() };
    assert!(got == want && got & 1 == 1);
    kani::cover!(le && got == 0x0201);
    kani::cover!(!le && got == 0xabcd);
}

//@ prop=C12,C16,C11 tier=quick profile=k8 funcs="Odd::from_be_hex,Odd::from_le_hex" bound="u8 words, U16: every 4-character ASCII string that is not a hex numeral of an odd value: must panic" free_bits=29 must_panic=1
#[kani::proof]
#[kani::unwind(6)]
fn c12_k8_odd_hex_garbage_panics() {
    let s: [u8; 4] = kani::any();
    kani::assume(s[0] < 0x80 && s[1] < 0x80 && s[2] < 0x80 && s[3] < 0x80);
    let le: bool = kani::any();
    let d = decode(&s);
    let bad = match d {
        None => true,
        Some(v) => (if le { v.swap_bytes() } else { v }) & 1 == 0,
    };
    kani::assume(bad);
    let txt = core::str::from_utf8(&s).unwrap();
    let _ = if le { Odd::<U16>::from_le_hex(txt) } else { Odd::<U16>::from_be_hex(txt) };
    must_have_panicked();
}
