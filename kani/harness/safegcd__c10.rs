//! C10 — linear kernels of the safegcd core (k64, all values).  Child of `modular::safegcd`.
//! The divsteps iteration itself (jump / fg / de over 62-bit limbs) is NOT decided (DESIGN.md C10).
use super::{iterations, UnsatInt};
use crate::__verif_common::*;
use crate::{Uint, Word};

const M: u64 = (1u64 << 62) - 1;

/// value of a 3-limb unsaturated integer as a two's complement 186-bit number, folded into
/// (low 128 bits, high 58 bits)
fn val3(x: &UnsatInt<3>) -> (u128, u64) {
    let lo = (x.0[0] as u128) | ((x.0[1] as u128) << 62) | (((x.0[2] & 0xf) as u128) << 124);
    (lo, x.0[2] >> 4)
}

//@ prop=C10,C11 tier=quick profile=k64 funcs="UnsatInt::from_uint,UnsatInt::to_uint,impl_limb_convert!" bound="Uint<1> <-> UnsatInt<3> and Uint<2> <-> UnsatInt<4>: every value: limbs < 2^62, value preserved, round trip" free_bits=192
#[kani::proof]
#[kani::unwind(8)]
fn c10_unsat_convert_roundtrip() {
    let a: Uint<1> = any_uint();
    let u = UnsatInt::<3>::from_uint(&a);
    assert!(u.0[0] <= M && u.0[1] <= M && u.0[2] <= M);
    assert!((u.0[0] as u128) | ((u.0[1] as u128) << 62) == to_u128(&a) && u.0[2] == 0);
    assert!(u.to_uint::<1>() == a);
    let b: Uint<2> = any_uint();
    let v = UnsatInt::<4>::from_uint(&b);
    assert!(v.0[0] <= M && v.0[1] <= M && v.0[2] <= M && v.0[3] == 0);
    let low124 = (v.0[0] as u128) | ((v.0[1] as u128) << 62);
    assert!(low124 == to_u128(&b) & ((1u128 << 124) - 1) && v.0[2] as u128 == to_u128(&b) >> 124);
    assert!(v.to_uint::<2>() == b);
    assert!(!u.is_negative().to_bool_vartime() && !v.is_negative().to_bool_vartime());
}

//@ prop=C10,C11 tier=quick profile=k64 funcs="UnsatInt::add,UnsatInt::neg,UnsatInt::shr,UnsatInt::eq,UnsatInt::is_negative,UnsatInt::select,UnsatInt::lowest" bound="UnsatInt<3> (186-bit two's complement in 62-bit limbs): every pair of well-formed values" free_bits=372
#[kani::proof]
#[kani::unwind(8)]
fn c10_unsat_linear_ops() {
    let mut x = UnsatInt::<3>([kani::any(), kani::any(), kani::any()]);
    let mut y = UnsatInt::<3>([kani::any(), kani::any(), kani::any()]);
    let mut i = 0;
    while i < 3 {
        kani::assume(x.0[i] <= M && y.0[i] <= M); // representation invariant
        i += 1;
    }
    let (xl, xh) = val3(&x);
    let (yl, yh) = val3(&y);
    // add: modulo 2^186
    let s = x.add(&y);
    let (sl, sh) = val3(&s);
    let (wl, c) = xl.overflowing_add(yl);
    assert!(sl == wl && sh == (xh + yh + c as u64) & ((1u64 << 58) - 1));
    assert!(s.0[0] <= M && s.0[1] <= M && s.0[2] <= M);
    // neg
    let n = x.neg();
    let z = x.add(&n);
    assert!(z.0[0] == 0 && z.0[1] == 0 && z.0[2] == 0);
    // sign and arithmetic shift by one limb
    assert!(x.is_negative().to_bool_vartime() == (x.0[2] >> 61 == 1));
    let h = x.shr();
    assert!(h.0[0] == x.0[1] && h.0[1] == x.0[2] && h.0[2] == if x.0[2] >> 61 == 1 { M } else { 0 });
    assert!(x.eq(&y).to_bool_vartime() == (x.0[0] == y.0[0] && x.0[1] == y.0[1] && x.0[2] == y.0[2]));
    assert!(x.lowest() == x.0[0]);
    let c: bool = kani::any();
    let sel = UnsatInt::select(&x, &y, crate::ConstChoice::from_word_lsb(c as Word));
    assert!(sel.0[0] == if c { y.0[0] } else { x.0[0] } && sel.0[2] == if c { y.0[2] } else { x.0[2] });
    let _ = (&mut x, &mut y);
}

//@ prop=C10,C11 tier=quick profile=k64 funcs="safegcd::iterations" bound="every pair of bit lengths up to 2^16: exactly the Bernstein-Yang count floor((49d+80)/17) for d < 46 and floor((49d+57)/17) otherwise, d = max(f_bits, g_bits)" free_bits=32
#[kani::proof]
fn c10_iterations_bound() {
    let f: u32 = kani::any();
    let g: u32 = kani::any();
    kani::assume(f <= (1 << 16) && g <= (1 << 16));
    let d = if f > g { f } else { g } as u64;
    let it = iterations(f, g) as u64;
    let num = 49 * d + if d < 46 { 80 } else { 57 };
    assert!(17 * it <= num && num < 17 * (it + 1)); // it = floor(num / 17), stated without division
}

// ---------------------------------------------------------------- final normalisation (cut-point of inv / inv_vartime)
/// 186-bit two's complement image of v in three 62-bit limbs
fn mk3(v: i128) -> UnsatInt<3> {
    let u = v as u128;
    let top = ((u >> 124) as u64 & 0xf) | if v < 0 { M & !0xf } else { 0 };
    UnsatInt::<3>([(u as u64) & M, ((u >> 62) as u64) & M, top])
}
/// value of a well-formed 3-limb unsaturated integer that fits an i128
fn sval3(x: &UnsatInt<3>) -> i128 {
    let lo = (x.0[0] as u128) | ((x.0[1] as u128) << 62) | (((x.0[2] & 0xf) as u128) << 124);
    lo as i128
}

//@ prop=C10,C11 tier=quick profile=k64 funcs="SafeGcdInverter::norm" bound="SAT 1 limb / UNSAT 3 limbs: every odd 64-bit modulus M, every d in the documented interval (-2M, M), both values of negate: the result is the representative in [0, M) of +-d" free_bits=194 assumes="cut point: d in (-2M, M) as documented for norm"
#[kani::proof]
#[kani::unwind(8)]
fn c10_norm_fixed_1() {
    let m: u64 = kani::any();
    kani::assume(m & 1 == 1);
    let mi = m as i128;
    let v: i128 = kani::any();
    kani::assume(-2 * mi < v && v < mi);
    let inv = super::SafeGcdInverter::<1, 3> { modulus: mk3(mi), adjuster: mk3(1), inverse: 0 };
    let neg: bool = kani::any();
    let r = inv.norm(mk3(v), crate::ConstChoice::from_word_lsb(neg as Word));
    assert!(r.0[0] <= M && r.0[1] <= M && r.0[2] == 0);
    let rv = sval3(&r);
    let sv = if neg { -v } else { v };
    assert!(0 <= rv && rv < mi);
    assert!(rv == sv || rv == sv + mi || rv == sv + 2 * mi || rv == sv - mi);
    kani::cover!(v <= -mi && !neg);
    kani::cover!(v <= -mi && neg);
    kani::cover!(v > 0 && neg);
    kani::cover!(v == 0);
}

// ---------------------------------------------------------------- call-site of the iteration count (cut-point slice of `divsteps`)
//@@ extract file=modular/safegcd.rs from="    let mut i = 0;\n" to="    while i < m {" sig="pub(super) fn __verif_divsteps_count<const LIMBS: usize>(f_0: UnsatInt<LIMBS>, g: UnsatInt<LIMBS>) -> usize" ret="m"

//@ prop=C10 tier=quick profile=k64 funcs="safegcd::divsteps (slice: the statements between `let mut i = 0;` and the `while i < m` loop),safegcd::iterations,UnsatInt::bits" bound="UnsatInt<3>: every pair of non-negative well-formed f_0, g: the loop bound m computed by divsteps is at least the Bernstein-Yang count for max(bits(f_0), bits(g)) (c10_iterations_bound decides that count); the divstep loop body itself is not decided" free_bits=372 assumes="cut point: f_0, g well-formed (limbs < 2^62) and non-negative, as produced by UnsatInt::from_uint"
#[kani::proof]
#[kani::unwind(8)]
fn c10_divsteps_count_covers_both_operands() {
    let f = UnsatInt::<3>([kani::any(), kani::any(), kani::any()]);
    let g = UnsatInt::<3>([kani::any(), kani::any(), kani::any()]);
    let mut i = 0;
    while i < 3 {
        kani::assume(f.0[i] <= M && g.0[i] <= M);
        i += 1;
    }
    kani::assume(f.0[2] >> 61 == 0 && g.0[2] >> 61 == 0);
    let m = super::__verif_divsteps_count(f, g) as u64;
    let (fb, gb) = (f.bits(), g.bits());
    let d = if fb > gb { fb } else { gb } as u64;
    let num = 49 * d + if d < 46 { 80 } else { 57 };
    assert!(17 * (m + 1) > num); // m >= floor(num / 17)
    kani::cover!(gb > fb && fb > 62);
    kani::cover!(fb > gb && gb == 0);
}

//@ prop=C10 tier=thorough profile=k64 funcs="safegcd::divsteps (slice: the statements between `let mut i = 0;` and the `while i < m` loop),safegcd::iterations,UnsatInt::bits" bound="UnsatInt<6> (the work width of a 256-bit operand): every pair of non-negative well-formed f_0, g: loop bound >= the Bernstein-Yang count for max(bits(f_0), bits(g)); the divstep loop body itself is not decided" free_bits=744 assumes="cut point: f_0, g well-formed (limbs < 2^62) and non-negative"
#[kani::proof]
#[kani::unwind(8)]
fn c10_divsteps_count_covers_both_operands_6() {
    let f = UnsatInt::<6>(kani::any());
    let g = UnsatInt::<6>(kani::any());
    let mut i = 0;
    while i < 6 {
        kani::assume(f.0[i] <= M && g.0[i] <= M);
        i += 1;
    }
    kani::assume(f.0[5] >> 61 == 0 && g.0[5] >> 61 == 0);
    let m = super::__verif_divsteps_count(f, g) as u64;
    let (fb, gb) = (f.bits(), g.bits());
    let d = if fb > gb { fb } else { gb } as u64;
    let num = 49 * d + if d < 46 { 80 } else { 57 };
    assert!(17 * (m + 1) > num);
    kani::cover!(gb > fb && fb > 256);
    kani::cover!(d < 46);
}
