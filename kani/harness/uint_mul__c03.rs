//! C03 — multiplication and squaring exact.  k8: 8-bit words, oracle = u64 product.
//! Child of `uint::mul` (reaches the private schoolbook routines and the Karatsuba template,
//! instantiated in the derived copy as (4, 2, 1) — the same macro body as the production (128,..,8)).
use super::karatsuba::UintKaratsubaMul;
use super::{schoolbook_squaring, uint_mul_limbs, uint_square_limbs};
use crate::__verif_common::*;
use crate::{Checked, CheckedMul, Limb, Uint, Word, Wrapping, WrappingMul};

/// T(k): the k top bits of the word free, all lower bits tied to one more free bit
/// (multiples of 2^(8-k) and their predecessors: where half-width carries and exact
/// multiples of the half base live).
fn tshaped_word(k: u32) -> Word {
    let v: Word = kani::any();
    let low_mask: Word = Word::MAX >> k;
    let low = v & low_mask;
    kani::assume(low == 0 || low == low_mask);
    v
}
fn tshaped<const L: usize>(k: u32) -> Uint<L> {
    let mut limbs = [Limb::ZERO; L];
    let mut i = 0;
    while i < L {
        limbs[i] = Limb(tshaped_word(k));
        i += 1;
    }
    Uint::new(limbs)
}

fn val<const L: usize>(x: &Uint<L>) -> u64 {
    to_u64(x)
}

/// all public forms for LIMBS x RHS, against the u64 product (L + R <= 8 limbs)
macro_rules! mul_forms {
    ($name:ident, $L:expr, $R:expr, $a:expr, $b:expr) => {
        #[kani::proof]
        #[kani::unwind(10)]
        fn $name() {
            const L: usize = $L;
            const R: usize = $R;
            let a: Uint<L> = $a;
            let b: Uint<R> = $b;
            let p = val(&a) * val(&b); // < 2^(8(L+R)) <= 2^64
            let lmask = if L == 8 { u64::MAX } else { (1u64 << (8 * L)) - 1 };
            let (lo, hi) = a.split_mul(&b);
            assert!(val(&lo) == p & lmask);
            assert!(val(&hi) == p >> (8 * L));
            assert!(val(&a.wrapping_mul(&b)) == p & lmask);
            let fits = p >> (8 * L) == 0;
            let c = CheckedMul::checked_mul(&a, &b);
            assert!(bool::from(c.is_some()) == fits);
            let s = a.saturating_mul(&b);
            assert!(val(&s) == if fits { p } else { lmask });
            if fits {
                assert!(val(&c.unwrap()) == p);
                assert!(val(&(a * b)) == p && val(&(&a * &b)) == p);
            }
            kani::cover!(!fits && p & lmask == 0);
            kani::cover!(fits && p != 0);
        }
    };
}
//@ name=c03_k8_mul_1x1_all prop=C03,C11 tier=quick profile=k8 funcs="Uint::split_mul,Uint::wrapping_mul,Uint::saturating_mul,CheckedMul,Mul for Uint,schoolbook_multiplication,Limb::mac" bound="u8 words, 1x1 limbs: every pair" free_bits=16
mul_forms!(c03_k8_mul_1x1_all, 1, 1, any_uint(), any_uint());
//@ name=c03_k8_mul_2x1_all prop=C03,C11 tier=quick profile=k8 funcs="Uint::split_mul,Uint::wrapping_mul,Uint::saturating_mul,CheckedMul,Mul for Uint,schoolbook_multiplication" bound="u8 words, 2x1 limbs (mixed width): lhs=[free,S(4)], every rhs" free_bits=21
mul_forms!(c03_k8_mul_2x1_all, 2, 1, Uint::new([Limb(kani::any()), Limb(shaped_word(4))]), any_uint());
//@ name=c03_k8_mul_1x2_all prop=C03,C11 tier=quick profile=k8 funcs="Uint::split_mul,Uint::wrapping_mul,Uint::saturating_mul,CheckedMul,Mul for Uint,schoolbook_multiplication" bound="u8 words, 1x2 limbs (mixed width): every lhs, rhs=[free,S(4)]" free_bits=21
mul_forms!(c03_k8_mul_1x2_all, 1, 2, any_uint(), Uint::new([Limb(kani::any()), Limb(shaped_word(4))]));
//@ name=c03_k8_mul_2x2_s3 prop=C03,C11 tier=quick profile=k8 funcs="Uint::split_mul,Uint::wrapping_mul,Uint::saturating_mul,CheckedMul,schoolbook_multiplication" bound="u8 words, 2x2 limbs: every limb S(3)" free_bits=16
mul_forms!(c03_k8_mul_2x2_s3, 2, 2, shaped(3), shaped(3));
//@ name=c03_k8_mul_3x2_s2 prop=C03,C11 tier=quick profile=k8 funcs="Uint::split_mul,Uint::wrapping_mul,Uint::saturating_mul,CheckedMul,schoolbook_multiplication" bound="u8 words, 3x2 limbs: every limb S(2)" free_bits=15
mul_forms!(c03_k8_mul_3x2_s2, 3, 2, shaped(2), shaped(2));
//@ name=c03_k8_mul_3x3_s1 prop=C03,C11 tier=quick profile=k8 funcs="Uint::split_mul,Uint::wrapping_mul,Uint::saturating_mul,CheckedMul,schoolbook_multiplication" bound="u8 words, 3x3 limbs: every limb S(1) (0,1,254,255)" free_bits=12
mul_forms!(c03_k8_mul_3x3_s1, 3, 3, shaped(1), shaped(1));
//@ name=c03_k8_mul_2x2_t3 prop=C03,C11 tier=thorough profile=k8 funcs="Uint::split_mul,Uint::wrapping_mul,Uint::saturating_mul,CheckedMul,schoolbook_multiplication" bound="u8 words, 2x2 limbs: every limb T(3)" free_bits=16
mul_forms!(c03_k8_mul_2x2_t3, 2, 2, tshaped(3), tshaped(3));
//@ name=c03_k8_mul_4x4_s1 prop=C03,C11 tier=thorough profile=k8 funcs="Uint::split_mul,Uint::wrapping_mul,Uint::saturating_mul,CheckedMul,schoolbook_multiplication" bound="u8 words, 4x4 limbs: every limb S(1)" free_bits=16
mul_forms!(c03_k8_mul_4x4_s1, 4, 4, shaped(1), shaped(1));

//@ prop=C03,C11 tier=quick profile=k8 funcs="Mul for Uint" bound="u8 words, 1x1 limbs: every pair with a*b >= 2^8: * must panic" free_bits=16 must_panic=1
#[kani::proof]
#[kani::unwind(6)]
fn c03_k8_mul_op_panics_on_overflow() {
    let a: Uint<1> = any_uint();
    let b: Uint<1> = any_uint();
    kani::assume(val(&a) * val(&b) > 0xff);
    let _ = a * b;
    must_have_panicked();
}

macro_rules! square_forms {
    ($name:ident, $L:expr, $a:expr) => {
        #[kani::proof]
        #[kani::unwind(10)]
        fn $name() {
            const L: usize = $L;
            let a: Uint<L> = $a;
            let p = val(&a) * val(&a);
            let lmask = (1u64 << (8 * L)) - 1;
            let (lo, hi) = a.square_wide();
            assert!(val(&lo) == p & lmask && val(&hi) == p >> (8 * L));
            let (mlo, mhi) = a.split_mul(&a);
            assert!(lo == mlo && hi == mhi); // squaring == multiplying by itself
            let fits = p >> (8 * L) == 0;
            assert!(a.checked_square().is_some().to_bool_vartime() == fits);
            assert!(val(&a.wrapping_square()) == p & lmask);
            assert!(val(&a.saturating_square()) == if fits { p } else { lmask });
            kani::cover!(!fits);
            kani::cover!(fits && p > 1);
        }
    };
}
//@ name=c03_k8_square_1_all prop=C03,C11,C15 tier=quick profile=k8 funcs="Uint::square_wide,Uint::checked_square,Uint::wrapping_square,Uint::saturating_square,schoolbook_squaring" bound="u8 words, 1 limb: every value" free_bits=8
square_forms!(c03_k8_square_1_all, 1, any_uint());
//@ name=c03_k8_square_2_all prop=C03,C11,C15 tier=quick profile=k8 funcs="Uint::square_wide,Uint::checked_square,Uint::wrapping_square,Uint::saturating_square,schoolbook_squaring" bound="u8 words, 2 limbs: every value" free_bits=16
square_forms!(c03_k8_square_2_all, 2, any_uint());
//@ name=c03_k8_square_3_s3 prop=C03,C11,C15 tier=quick profile=k8 funcs="Uint::square_wide,Uint::checked_square,Uint::wrapping_square,Uint::saturating_square,schoolbook_squaring" bound="u8 words, 3 limbs: every limb S(3)" free_bits=12
square_forms!(c03_k8_square_3_s3, 3, shaped(3));
//@ name=c03_k8_square_4_s2 prop=C03,C11,C15 tier=quick profile=k8 funcs="Uint::square_wide,Uint::checked_square,Uint::wrapping_square,Uint::saturating_square,schoolbook_squaring" bound="u8 words, 4 limbs: every limb S(2)" free_bits=12
square_forms!(c03_k8_square_4_s2, 4, shaped(2));

//@ prop=C03,C11 tier=quick profile=k8 funcs="Uint::widening_mul,Uint::widening_square,Uint::square,WrappingMul,Wrapping<Uint> *,Checked<Uint> *,Limb::wrapping_mul,Limb::saturating_mul,Limb::mul_wide,CheckedMul for Limb" bound="u8 words, 1x1 and 2x2 limbs: widening / wrapper forms, all values (1 limb), S(3) limbs (2 limbs)" free_bits=32
#[kani::proof]
#[kani::unwind(10)]
fn c03_k8_widening_and_wrappers() {
    let a: Uint<1> = any_uint();
    let b: Uint<1> = any_uint();
    let p = val(&a) * val(&b);
    let w: Uint<2> = a.widening_mul(&b);
    assert!(val(&w) == p);
    let sq: Uint<2> = a.square();
    assert!(val(&sq) == val(&a) * val(&a));
    let wsq: Uint<2> = a.widening_square();
    assert!(wsq == sq);
    assert!(val(&WrappingMul::wrapping_mul(&a, &b)) == p & 0xff);
    assert!(val(&(Wrapping(a) * Wrapping(b)).0) == p & 0xff);
    assert!(bool::from((Checked::new(a) * Checked::new(b)).0.is_some()) == (p <= 0xff));
    let (la, lb) = (a.as_limbs()[0], b.as_limbs()[0]);
    assert!(la.wrapping_mul(lb).0 as u64 == p & 0xff);
    assert!(la.saturating_mul(lb).0 as u64 == if p > 0xff { 0xff } else { p });
    let (ml, mh) = la.mul_wide(lb);
    assert!((ml.0 as u64) | ((mh.0 as u64) << 8) == p);
    assert!(bool::from(CheckedMul::checked_mul(&la, &lb).is_some()) == (p <= 0xff));
    let c: Uint<2> = shaped(3);
    let d: Uint<2> = shaped(3);
    let w2: Uint<4> = c.widening_mul(&d);
    assert!(val(&w2) == val(&c) * val(&d));
}

// ---------------------------------------------------------------- Karatsuba template at (4, 2, 1)
macro_rules! karatsuba_mul {
    ($name:ident, $N:expr, $a:expr, $b:expr) => {
        #[kani::proof]
        #[kani::unwind(10)]
        fn $name() {
            const N: usize = $N;
            let a: Uint<N> = $a;
            let b: Uint<N> = $b;
            let (lo, hi) = UintKaratsubaMul::<N>::multiply(a.as_limbs(), b.as_limbs());
            let p = (val(&a) as u128) * (val(&b) as u128);
            let mask = (1u128 << (8 * N)) - 1;
            assert!(val(&lo) as u128 == p & mask);
            assert!(val(&hi) as u128 == p >> (8 * N));
            // the schoolbook routine agrees limb for limb
            let (slo, shi): (Uint<N>, Uint<N>) = uint_mul_limbs(a.as_limbs(), b.as_limbs());
            assert!(slo == lo && shi == hi);
            // the quantifier's cases
            let h = N / 2;
            let x0 = val(&a) & ((1u64 << (8 * h)) - 1);
            let x1 = val(&a) >> (8 * h);
            let y0 = val(&b) & ((1u64 << (8 * h)) - 1);
            let y1 = val(&b) >> (8 * h);
            kani::cover!(x0 < x1 && y1 < y0);
            kani::cover!(x0 > x1 && y1 < y0);
            kani::cover!(x0 < x1 && y1 > y0);
            kani::cover!(x0 == x1 && y0 != y1);
            kani::cover!(x0 == 0 && x1 != 0 && y1 == 0 && y0 != 0);
        }
    };
}
//@ name=c03_k8_karatsuba2_s3 prop=C03,C11 tier=quick profile=k8 karatsuba=1 funcs="impl_uint_karatsuba_multiplication!{reduce} (instantiated at 2,1),UintKaratsubaMul::multiply,uint_mul_limbs" bound="u8 words, Karatsuba one level (2 limbs = 1+1): every limb S(3)" free_bits=16
karatsuba_mul!(c03_k8_karatsuba2_s3, 2, shaped(3), shaped(3));
//@ name=c03_k8_karatsuba2_t3 prop=C03,C11 tier=quick profile=k8 karatsuba=1 funcs="impl_uint_karatsuba_multiplication!{reduce} (instantiated at 2,1),UintKaratsubaMul::multiply,uint_mul_limbs" bound="u8 words, Karatsuba one level (2 limbs): every limb T(3) (multiples of 32 and their predecessors: |z1| an exact multiple of the half base is inside)" free_bits=16
karatsuba_mul!(c03_k8_karatsuba2_t3, 2, tshaped(3), tshaped(3));
//@ name=c03_k8_karatsuba4_s1 prop=C03,C11 tier=quick profile=k8 karatsuba=1 funcs="impl_uint_karatsuba_multiplication!{reduce} (instantiated at 4,2,1: two levels),UintKaratsubaMul::multiply" bound="u8 words, Karatsuba two levels (4 limbs): every limb S(1)" free_bits=16
karatsuba_mul!(c03_k8_karatsuba4_s1, 4, shaped(1), shaped(1));
//@ name=c03_k8_karatsuba4_t1 prop=C03,C11 tier=quick profile=k8 karatsuba=1 funcs="impl_uint_karatsuba_multiplication!{reduce} (instantiated at 4,2,1: two levels),UintKaratsubaMul::multiply" bound="u8 words, Karatsuba two levels (4 limbs): every limb T(1) (0x00,0x7f,0x80,0xff)" free_bits=16
karatsuba_mul!(c03_k8_karatsuba4_t1, 4, tshaped(1), tshaped(1));
//@ name=c03_k8_karatsuba2_all_lhs prop=C03,C11 tier=thorough profile=k8 karatsuba=1 funcs="impl_uint_karatsuba_multiplication!{reduce} (instantiated at 2,1)" bound="u8 words, Karatsuba one level: every lhs, rhs limbs S(2)" free_bits=22
karatsuba_mul!(c03_k8_karatsuba2_all_lhs, 2, any_uint(), shaped(2));

macro_rules! karatsuba_sq {
    ($name:ident, $N:expr, $a:expr) => {
        #[kani::proof]
        #[kani::unwind(10)]
        fn $name() {
            const N: usize = $N;
            let a: Uint<N> = $a;
            let (lo, hi) = UintKaratsubaMul::<N>::square(a.as_limbs());
            let p = (val(&a) as u128) * (val(&a) as u128);
            let mask = (1u128 << (8 * N)) - 1;
            assert!(val(&lo) as u128 == p & mask && val(&hi) as u128 == p >> (8 * N));
            let (slo, shi): (Uint<N>, Uint<N>) = uint_square_limbs(a.as_limbs());
            assert!(slo == lo && shi == hi);
        }
    };
}
//@ name=c03_k8_karatsuba_sq2_all prop=C03,C11 tier=quick profile=k8 karatsuba=1 funcs="impl_uint_karatsuba_squaring!{reduce} (instantiated at 2,1),UintKaratsubaMul::square,uint_square_limbs" bound="u8 words, Karatsuba squaring one level (2 limbs): every value" free_bits=16
karatsuba_sq!(c03_k8_karatsuba_sq2_all, 2, any_uint());
//@ name=c03_k8_karatsuba_sq4_s3 prop=C03,C11 tier=quick profile=k8 karatsuba=1 funcs="impl_uint_karatsuba_squaring!{reduce} (instantiated at 4,2,1)" bound="u8 words, Karatsuba squaring two levels (4 limbs): every limb S(3)" free_bits=16
karatsuba_sq!(c03_k8_karatsuba_sq4_s3, 4, shaped(3));
//@ name=c03_k8_karatsuba_sq4_t2 prop=C03,C11 tier=thorough profile=k8 karatsuba=1 funcs="impl_uint_karatsuba_squaring!{reduce} (instantiated at 4,2,1)" bound="u8 words, Karatsuba squaring two levels (4 limbs): every limb T(2)" free_bits=12
karatsuba_sq!(c03_k8_karatsuba_sq4_t2, 4, tshaped(2));

//@ prop=C03,C04,C11 tier=quick profile=k8 funcs="primitives::mac,primitives::mul_wide,primitives::mulhilo,primitives::addhilo,Limb::mac" bound="u8 words: every (a,b,c,carry)" free_bits=32
#[kani::proof]
fn c03_k8_prim_mac_all() {
    let a: Word = kani::any();
    let b: Word = kani::any();
    let c: Word = kani::any();
    let k: Word = kani::any();
    let (lo, hi) = crate::primitives::mac(a, b, c, k);
    let t: u32 = (a as u32) + (b as u32) * (c as u32) + (k as u32);
    assert!(t <= 0xffff);
    assert!(lo as u32 == t & 0xff && hi as u32 == t >> 8);
    let (l2, h2) = Limb(a).mac(Limb(b), Limb(c), Limb(k));
    assert!(l2.0 == lo && h2.0 == hi);
    let (ml, mh) = crate::primitives::mul_wide(b, c);
    assert!((ml as u32) | ((mh as u32) << 8) == (b as u32) * (c as u32));
    let (hh, hl) = crate::primitives::mulhilo(b, c);
    assert!(hl == ml && hh == mh);
    kani::cover!(hi == Word::MAX);
}
