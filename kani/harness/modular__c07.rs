//! C07 — modular add/sub/neg/double/halve canonical (k64, all values).  Child of `modular`
//! (reaches the crate-private `div_by_2`).
use super::div_by_2::{div_by_2, div_by_2_boxed};
use crate::__verif_common::boxed::*;
use crate::__verif_common::*;
use crate::{AddMod, BoxedUint, Limb, NegMod, Odd, SubMod, Uint, Word};

/// (a + b) mod p for a, b < p, on word arrays: L-limb sum with carry, conditional subtraction.
fn ref_add_mod<const L: usize>(a: &[Word; L], b: &[Word; L], p: &[Word; L]) -> [Word; L] {
    let (s, c) = ref_add(a, b, 0);
    if c != 0 || !ref_lt(&s, p) {
        ref_sub(&s, p, 0).0
    } else {
        s
    }
}
fn ref_sub_mod<const L: usize>(a: &[Word; L], b: &[Word; L], p: &[Word; L]) -> [Word; L] {
    let (d, br) = ref_sub(a, b, 0);
    if br != 0 { ref_add(&d, p, 0).0 } else { d }
}

macro_rules! mod_linear {
    ($name:ident, $L:expr) => {
        #[kani::proof]
        #[kani::unwind(8)]
        fn $name() {
            const L: usize = $L;
            let p: Uint<L> = any_uint();
            let a: Uint<L> = any_uint();
            let b: Uint<L> = any_uint();
            let (pw, aw, bw) = (words_of(&p), words_of(&a), words_of(&b));
            kani::assume(ref_lt(&aw, &pw) && ref_lt(&bw, &pw)); // documented precondition a, b < p (hence p >= 1)
            let zero = [0 as Word; L];
            let s = a.add_mod(&b, &p);
            let sw = words_of(&s);
            assert!(ref_lt(&sw, &pw));
            assert!(words_eq(&sw, &ref_add_mod(&aw, &bw, &pw)));
            assert!(AddMod::add_mod(&a, &b, &p) == s);
            let d = a.sub_mod(&b, &p);
            let dw = words_of(&d);
            assert!(ref_lt(&dw, &pw) && words_eq(&dw, &ref_sub_mod(&aw, &bw, &pw)));
            assert!(SubMod::sub_mod(&a, &b, &p) == d);
            let n = a.neg_mod(&p);
            let nw = words_of(&n);
            assert!(ref_lt(&nw, &pw) && words_eq(&nw, &ref_sub_mod(&zero, &aw, &pw)));
            assert!(NegMod::neg_mod(&a, &p) == n);
            let dbl = a.double_mod(&p);
            let dblw = words_of(&dbl);
            assert!(ref_lt(&dblw, &pw) && words_eq(&dblw, &ref_add_mod(&aw, &aw, &pw)));
            // sub_mod_with_carry: (carry*2^BITS + a) - b mod p for a value < 2p
            kani::cover!(is_zero_words(&sw) && !is_zero_words(&aw)); // a + b = p
            kani::cover!(ref_add(&aw, &bw, 0).1 == 1); // the sum overflows 2^BITS
            kani::cover!(is_zero_words(&dblw) && !is_zero_words(&aw)); // 2a = p (even modulus)
            kani::cover!(pw[0] == 1 && L == 1 || L > 1);
        }
    };
}
//@ name=c07_mod_linear_1 prop=C07,C11 tier=quick profile=k64 funcs="Uint::add_mod,Uint::sub_mod,Uint::neg_mod,Uint::double_mod,AddMod,SubMod,NegMod" bound="Uint<1>: every p and every a,b < p" free_bits=192
mod_linear!(c07_mod_linear_1, 1);
//@ name=c07_mod_linear_2 prop=C07,C11 tier=quick profile=k64 funcs="Uint::add_mod,Uint::sub_mod,Uint::neg_mod,Uint::double_mod,AddMod,SubMod,NegMod" bound="Uint<2>: every p and every a,b < p" free_bits=384
mod_linear!(c07_mod_linear_2, 2);
//@ name=c07_mod_linear_3 prop=C07,C11 tier=quick profile=k64 funcs="Uint::add_mod,Uint::sub_mod,Uint::neg_mod,Uint::double_mod" bound="Uint<3>: every p and every a,b < p" free_bits=576
mod_linear!(c07_mod_linear_3, 3);
//@ name=c07_mod_linear_4 prop=C07,C11 tier=thorough profile=k64 funcs="Uint::add_mod,Uint::sub_mod,Uint::neg_mod,Uint::double_mod" bound="Uint<4>: every p and every a,b < p" free_bits=768
mod_linear!(c07_mod_linear_4, 4);

//@ prop=C07,C11 tier=quick profile=k64 funcs="Uint::add_mod,Uint::sub_mod,Uint::double_mod" bound="Uint<1>: every p, a, b < p, against u128 % arithmetic" free_bits=192
#[kani::proof]
#[kani::unwind(4)]
fn c07_mod_linear_1_vs_u128() {
    let p: Uint<1> = any_uint();
    let a: Uint<1> = any_uint();
    let b: Uint<1> = any_uint();
    let (pv, av, bv) = (to_u128(&p), to_u128(&a), to_u128(&b));
    kani::assume(av < pv && bv < pv);
    // a + b < 2p: one conditional subtraction is the full reduction
    let s = av + bv;
    assert!(to_u128(&a.add_mod(&b, &p)) == if s >= pv { s - pv } else { s });
    assert!(to_u128(&a.sub_mod(&b, &p)) == if av >= bv { av - bv } else { av + pv - bv });
    let d = av + av;
    assert!(to_u128(&a.double_mod(&p)) == if d >= pv { d - pv } else { d });
}

macro_rules! mod_special {
    ($name:ident, $L:expr) => {
        #[kani::proof]
        #[kani::unwind(8)]
        fn $name() {
            const L: usize = $L;
            let c: Word = kani::any();
            kani::assume(c != 0);
            // p = 2^BITS - c
            let mut cw = [0 as Word; L];
            cw[0] = c;
            let zero = [0 as Word; L];
            let (pw, _) = ref_sub(&zero, &cw, 0);
            let a: Uint<L> = any_uint();
            let b: Uint<L> = any_uint();
            let (aw, bw) = (words_of(&a), words_of(&b));
            kani::assume(ref_lt(&aw, &pw) && ref_lt(&bw, &pw));
            let s = a.add_mod_special(&b, Limb(c));
            assert!(words_eq(&words_of(&s), &ref_add_mod(&aw, &bw, &pw)));
            let d = a.sub_mod_special(&b, Limb(c));
            assert!(words_eq(&words_of(&d), &ref_sub_mod(&aw, &bw, &pw)));
            let n = a.neg_mod_special(Limb(c));
            assert!(words_eq(&words_of(&n), &ref_sub_mod(&zero, &aw, &pw)));
            kani::cover!(c == 1);
            kani::cover!(c == Word::MAX);
            kani::cover!(ref_add(&aw, &bw, 0).1 == 1);
        }
    };
}
//@ name=c07_mod_special_1 prop=C07,C11 tier=quick profile=k64 funcs="Uint::add_mod_special,Uint::sub_mod_special,Uint::neg_mod_special" bound="Uint<1>: p = 2^64 - c for every word c != 0, every a,b < p" free_bits=192
mod_special!(c07_mod_special_1, 1);
//@ name=c07_mod_special_2 prop=C07,C11 tier=quick profile=k64 funcs="Uint::add_mod_special,Uint::sub_mod_special,Uint::neg_mod_special" bound="Uint<2>: p = 2^128 - c for every word c != 0, every a,b < p" free_bits=320
mod_special!(c07_mod_special_2, 2);
//@ name=c07_mod_special_3 prop=C07,C11 tier=quick profile=k64 funcs="Uint::add_mod_special,Uint::sub_mod_special,Uint::neg_mod_special" bound="Uint<3>: p = 2^192 - c for every word c != 0, every a,b < p" free_bits=448
mod_special!(c07_mod_special_3, 3);

macro_rules! halve {
    ($name:ident, $L:expr) => {
        #[kani::proof]
        #[kani::unwind(8)]
        fn $name() {
            const L: usize = $L;
            let p: Uint<L> = any_uint();
            let a: Uint<L> = any_uint();
            let (pw, aw) = (words_of(&p), words_of(&a));
            kani::assume(pw[0] & 1 == 1 && ref_lt(&aw, &pw));
            let h = div_by_2(&a, &Odd(p));
            let hw = words_of(&h);
            assert!(ref_lt(&hw, &pw)); // canonical
            assert!(words_eq(&ref_add_mod(&hw, &hw, &pw), &aw)); // h + h = a (mod p)
            kani::cover!(aw[0] & 1 == 1 && pw[L - 1] == Word::MAX); // a + p overflows 2^BITS
            kani::cover!(is_zero_words(&aw));
        }
    };
}
//@ name=c07_halve_1 prop=C07,C08,C11 tier=quick profile=k64 funcs="modular::div_by_2" bound="Uint<1>: every odd p, every a < p" free_bits=128
halve!(c07_halve_1, 1);
//@ name=c07_halve_2 prop=C07,C08,C11 tier=quick profile=k64 funcs="modular::div_by_2" bound="Uint<2>: every odd p, every a < p" free_bits=256
halve!(c07_halve_2, 2);
//@ name=c07_halve_3 prop=C07,C08,C11 tier=quick profile=k64 funcs="modular::div_by_2" bound="Uint<3>: every odd p, every a < p" free_bits=384
halve!(c07_halve_3, 3);

//@ prop=C07,C11,C15 tier=quick profile=k64 funcs="BoxedUint::add_mod,BoxedUint::add_mod_assign,BoxedUint::sub_mod,BoxedUint::neg_mod,BoxedUint::double_mod,BoxedUint::sub_mod_special,BoxedUint::neg_mod_special,modular::div_by_2_boxed" bound="BoxedUint 2 limbs: every p and every a,b < p (p odd for the halving); results equal the fixed-width Uint<2> results limb for limb" free_bits=384 core=C15
#[kani::proof]
#[kani::unwind(8)]
fn c07_boxed_mod_linear_2() {
    let p: Uint<2> = any_uint();
    let a: Uint<2> = any_uint();
    let b: Uint<2> = any_uint();
    let (pw, aw, bw) = (words_of(&p), words_of(&a), words_of(&b));
    kani::assume(ref_lt(&aw, &pw) && ref_lt(&bw, &pw));
    let (bp, ba, bb) = (boxed_from(&pw), boxed_from(&aw), boxed_from(&bw));
    let s = ba.add_mod(&bb, &bp);
    assert!(s.nlimbs() == 2 && words_eq(&bwords::<2>(&s), &ref_add_mod(&aw, &bw, &pw)));
    let mut s2 = ba.clone();
    s2.add_mod_assign(&bb, &bp);
    assert!(words_eq(&bwords::<2>(&s2), &ref_add_mod(&aw, &bw, &pw)));
    let d = ba.sub_mod(&bb, &bp);
    assert!(d.nlimbs() == 2 && words_eq(&bwords::<2>(&d), &ref_sub_mod(&aw, &bw, &pw)));
    let n = ba.neg_mod(&bp);
    assert!(words_eq(&bwords::<2>(&n), &ref_sub_mod(&[0, 0], &aw, &pw)));
    let dd = ba.double_mod(&bp);
    assert!(words_eq(&bwords::<2>(&dd), &ref_add_mod(&aw, &aw, &pw)));
    if pw[0] & 1 == 1 {
        let h = div_by_2_boxed(&ba, &Odd(bp.clone()));
        assert!(words_eq(&bwords::<2>(&h), &words_of(&div_by_2(&a, &Odd(p)))));
        core::mem::forget(h);
    }
    // special-modulus forms where p happens to be 2^128 - c
    if pw[1] == Word::MAX && pw[0] != 0 {
        let c = pw[0].wrapping_neg();
        if c != 0 {
            let ds = ba.sub_mod_special(&bb, Limb(c));
            assert!(words_eq(&bwords::<2>(&ds), &ref_sub_mod(&aw, &bw, &pw)));
            let ns = ba.neg_mod_special(Limb(c));
            assert!(words_eq(&bwords::<2>(&ns), &ref_sub_mod(&[0, 0], &aw, &pw)));
            core::mem::forget((ds, ns));
        }
    }
    core::mem::forget((bp, ba, bb, s, s2, d, n, dd));
}
