//! C14 (more widths) — k8: Int<3> with constructive shapes (n := +-(q*|d| + r)) so that the rare
//! branches of the shared limb kernels (div2by1 second correction, div3by2 saturated estimate, the
//! Knuth add-back) are inside the shape for every signed flavour; Int<2> by every single-limb-valued
//! divisor; and the mixed-width vartime forms.
use crate::__verif_common::*;
use crate::{Int, Limb, NonZero, Uint, Word};

fn sval<const L: usize>(x: &Int<L>) -> i64 {
    let u = to_u64(x.as_uint());
    let bits = 8 * L as u32;
    ((u << (64 - bits)) as i64) >> (64 - bits)
}
fn mk<const L: usize>(v: i64) -> Int<L> {
    Int::from_bits(from_u128((v as u128) & ((1u128 << (8 * L as u32)) - 1)))
}

/// T(k): the k top bits free, the lower bits all equal (0 or 1)
fn tword(k: u32) -> Word {
    let v: Word = kani::any();
    let low_mask: Word = Word::MAX >> k;
    kani::assume(v & low_mask == 0 || v & low_mask == low_mask);
    v
}
/// Int<2> dividends: limbs near 0 / MAX (S shapes) or multiples of 2^5 / 2^6 and their predecessors (T shapes)
fn any_n2() -> Int<2> {
    let t: bool = kani::any();
    let (lo, hi) = if t { (tword(3), tword(2)) } else { (shaped_word(3), shaped_signed_top(3)) };
    Int::from_bits(Uint::new([Limb(lo), Limb(hi)]))
}

macro_rules! int3_constructive {
    ($name:ident, $dshape:expr, $kq:expr, $kr:expr) => {
        #[kani::proof]
        #[kani::unwind(8)]
        fn $name() {
            let dm: Uint<3> = $dshape; // |d|
            let dv = to_u64(&dm) as i64;
            kani::assume(dv != 0 && dv < (1 << 23));
            let qraw: u32 = kani::any();
            let qhi = qraw >> 2;
            kani::assume(qraw >> $kq == 0 && (qhi == 0 || qhi == ((1u32 << $kq) - 1) >> 2));
            let rsel: bool = kani::any();
            let rk: i64 = (kani::any::<u8>() as i64) & ((1i64 << $kr) - 1);
            kani::assume(rk < dv);
            let rh = if rsel { dv - 1 - rk } else { rk };
            let nm = (qraw as i64) * dv + rh; // |n|
            kani::assume(nm < (1 << 23));
            let (sn, sd): (bool, bool) = (kani::any(), kani::any());
            let (x, y) = (if sn { -nm } else { nm }, if sd { -dv } else { dv });
            let (n, d): (Int<3>, Int<3>) = (mk(x), mk(y));
            let dz = NonZero::new(d).unwrap();
            // truncating
            let want_q = if sn != sd { -(qraw as i64) } else { qraw as i64 };
            let want_r = if sn { -rh } else { rh };
            let (q, r) = n.checked_div_rem(&dz);
            assert!(q.is_some().to_bool_vartime());
            assert!(sval(&q.unwrap_or(Int::ZERO)) == want_q && sval(&r) == want_r);
            let (qv, rv) = n.checked_div_rem_vartime(&dz);
            assert!(sval(&qv.unwrap_or(Int::ZERO)) == want_q && sval(&rv) == want_r);
            // flooring quotient (the remainder of the Int/Int flooring form is the recorded finding)
            let fq = if sn != sd && rh != 0 { want_q - 1 } else { want_q };
            let (f, _) = n.checked_div_rem_floor(&dz);
            assert!(sval(&f.unwrap_or(Int::ZERO)) == fq);
            // by the unsigned magnitude
            let mz = NonZero::new(dm).unwrap();
            let (uq, ur) = n.div_rem_uint(&mz);
            assert!(sval(&uq) == if sn { -(qraw as i64) } else { qraw as i64 } && sval(&ur) == want_r);
            let (gq, gr) = n.div_rem_floor_uint(&mz);
            let gqw = if sn && rh != 0 { -(qraw as i64) - 1 } else if sn { -(qraw as i64) } else { qraw as i64 };
            assert!(sval(&gq) == gqw && to_u64(&gr) as i64 == if sn && rh != 0 { dv - rh } else { rh });
            kani::cover!(sn && !sd && rh == dv - 1 && qraw > 3);
            kani::cover!(!sn && sd && rh == 0 && qraw > 3);
            kani::cover!(qraw == 0 && sn);
        }
    };
}
//@ name=c14_k8_int3_constructive_d2 prop=C14,C11,C15 tier=quick profile=k8 funcs="Int::checked_div_rem,Int::checked_div_rem_vartime,Int::checked_div_rem_floor,Int::div_rem_uint,Int::div_rem_floor_uint,div3by2,div2by1" bound="u8 words, Int<3>: |d|=[S(2),free,0] (2-limb magnitude), |n|=q*|d|+r < 2^23 with q in {0..3, 2^k-4..2^k-1 for k=9}, r within 4 of 0 or |d|, all four sign combinations" free_bits=20
int3_constructive!(c14_k8_int3_constructive_d2, Uint::<3>::new([Limb(shaped_word(2)), Limb(kani::any()), Limb(0)]), 9, 2);
//@ name=c14_k8_int3_constructive_d1 prop=C14,C11,C15 tier=quick profile=k8 funcs="Int::checked_div_rem,Int::checked_div_rem_vartime,Int::checked_div_rem_floor,Int::div_rem_uint,Int::div_rem_floor_uint,div2by1" bound="u8 words, Int<3>: |d|=[free,0,0] (1-limb magnitude), |n|=q*|d|+r < 2^23 with q a 16-bit value with 2 free low bits and all-equal high bits, r within 8 of 0 or |d|" free_bits=17
int3_constructive!(c14_k8_int3_constructive_d1, Uint::<3>::new([Limb(kani::any()), Limb(0), Limb(0)]), 16, 3);
//@ name=c14_k8_int3_constructive_d3 prop=C14,C11,C15 tier=quick profile=k8 funcs="Int::checked_div_rem,Int::checked_div_rem_vartime,Int::checked_div_rem_floor,Int::div_rem_uint,Int::div_rem_floor_uint" bound="u8 words, Int<3>: |d|=[S(1),S(1),S(3)] < 2^23 (3-limb magnitude), |n|=q*|d|+r < 2^23, q in 0..15, r within 2 of 0 or |d|" free_bits=16
int3_constructive!(c14_k8_int3_constructive_d3, Uint::<3>::new([Limb(shaped_word(1)), Limb(shaped_word(1)), Limb(shaped_word(3) & 0x7f)]), 4, 1);

//@ prop=C14,C11,C15 tier=quick profile=k8 funcs="Int::checked_div_rem,Int::checked_div_rem_vartime,div2by1,div_rem_limb" bound="u8 words, Int<2>: n=[S(3),S(3)^sign] or n=[T(3),T(2)], every divisor with a single-limb magnitude (1..=255, either sign)" free_bits=19
#[kani::proof]
#[kani::unwind(8)]
fn c14_k8_int2_by_single_limb_magnitude() {
    let n: Int<2> = any_n2();
    let m: Word = kani::any();
    kani::assume(m != 0);
    let sd: bool = kani::any();
    let y = if sd { -(m as i64) } else { m as i64 };
    let d: Int<2> = mk(y);
    let x = sval(&n);
    let dz = NonZero::new(d).unwrap();
    let (q, r) = n.checked_div_rem(&dz);
    let ok = !(x == -32768 && y == -1);
    assert!(q.is_some().to_bool_vartime() == ok);
    let (qv, rv) = n.checked_div_rem_vartime(&dz);
    assert!(qv.is_some().to_bool_vartime() == ok && rv == r);
    if ok {
        let (qq, rr) = (sval(&q.unwrap_or(Int::ZERO)), sval(&r));
        let ar = if rr < 0 { -rr } else { rr };
        assert!(qq * y + rr == x && ar < m as i64 && (rr == 0 || (rr < 0) == (x < 0)));
        assert!(sval(&qv.unwrap_or(Int::ZERO)) == qq);
    }
    kani::cover!(x == -32768 && y == -1);
    kani::cover!(ok && x < 0 && y < 0 && sval(&r) != 0);
}

// ---------------------------------------------------------------- mixed widths (vartime forms)
//@ prop=C14,C11,C15 tier=quick profile=k8 funcs="Int::checked_div_rem_vartime (mixed widths),Int::rem_vartime,Int::checked_div_vartime,Int::checked_div_rem_floor_vartime (mixed widths)" bound="u8 words, Int<2> by Int<1>: n=[S(3),S(3)^sign] or [T(3),T(2)], every d != 0" free_bits=18
#[kani::proof]
#[kani::unwind(8)]
fn c14_k8_int2_by_int1_vartime() {
    let n: Int<2> = any_n2();
    let d: Int<1> = Int::from_bits(any_uint());
    let (x, y) = (sval(&n), sval(&d));
    kani::assume(y != 0);
    let dz = NonZero::new(d).unwrap();
    let ok = !(x == -32768 && y == -1);
    let (q, r) = n.checked_div_rem_vartime(&dz);
    assert!(q.is_some().to_bool_vartime() == ok);
    assert!(n.rem_vartime(&dz) == r);
    assert!(bool::from(n.checked_div_vartime(&d).is_some()) == ok);
    let (f, _fr) = n.checked_div_rem_floor_vartime(&dz);
    assert!(f.is_some().to_bool_vartime() == ok);
    if ok {
        let (qq, rr) = (sval(&q.unwrap_or(Int::ZERO)), sval(&r));
        let (ar, ay) = (if rr < 0 { -rr } else { rr }, if y < 0 { -y } else { y });
        assert!(qq * y + rr == x && ar < ay && (rr == 0 || (rr < 0) == (x < 0)));
        // floor quotient: 0 <= (x - fq*y) * sign(y) < |y|
        let fq = sval(&f.unwrap_or(Int::ZERO));
        let t = (x - fq * y) * if y < 0 { -1 } else { 1 };
        assert!(t >= 0 && t < ay);
    }
    kani::cover!(!ok);
    kani::cover!(ok && x < 0 && y > 0 && sval(&r) != 0);
}

macro_rules! int2_by_uint1 {
    ($name:ident, $class:expr) => {
        #[kani::proof]
        #[kani::unwind(8)]
        fn $name() {
            let n: Int<2> = any_n2();
            let d: Uint<1> = any_uint();
            let (x, y) = (sval(&n) as i32, to_u64(&d) as i32);
            kani::assume(y != 0);
            let dz = NonZero::new(d).unwrap();
            let ax = if x < 0 { -x } else { x };
            let q16: u16 = kani::any();
            let q_true = q16 as i32;
            kani::assume(q_true <= ax && q_true * y <= ax && ax < (q_true + 1) * y);
            let r_true = ax - q_true * y;
            if $class == 2 {
                // flooring forms return the remainder as a Uint: representable for every input
                let (fq, fr) = n.div_rem_floor_uint_vartime(&dz);
                let frv = to_u64(&fr) as i32;
                let want_fq = if x < 0 && r_true != 0 { -q_true - 1 } else if x < 0 { -q_true } else { q_true };
                assert!(sval(&fq) as i32 == want_fq && frv == if x < 0 && r_true != 0 { y - r_true } else { r_true });
                assert!(n.div_floor_uint_vartime(&dz) == fq && n.normalized_rem_vartime(&dz) == fr);
            } else {
                // truncating forms return the remainder as Int<1>: class 0 = |true remainder| < 128
                kani::assume(($class == 0) == (r_true < 128));
                let (q, r) = n.div_rem_uint_vartime(&dz);
                assert!(sval(&q) as i32 == if x < 0 { -q_true } else { q_true });
                assert!(n.div_uint_vartime(&dz) == q);
                assert!(sval(&r) as i32 == if x < 0 { -r_true } else { r_true }); // n = q*d + r, |r| < d
                assert!(n.rem_uint_vartime(&dz) == r);
            }
            kani::cover!(x < 0 && r_true != 0);
        }
    };
}
//@ name=c14_k8_int2_by_uint1_vartime prop=C14,C11,C15 tier=quick profile=k8 funcs="Int::div_rem_uint_vartime (mixed widths),Int::div_uint_vartime,Int::rem_uint_vartime" bound="u8 words, Int<2> by Uint<1>: n=[S(3),S(3)^sign] or [T(3),T(2)], every d != 0 whose true remainder magnitude is below 2^7 (the complement is the isolated finding harness)" free_bits=18 assumes="truncating-remainder assertion excludes |r| >= 2^(RHS_BITS-1) (isolated in c14_k8_int2_by_uint1_vartime_wide_remainder)"
int2_by_uint1!(c14_k8_int2_by_uint1_vartime, 0);
//@ name=c14_k8_int2_by_uint1_vartime_wide_remainder prop=C14 tier=quick profile=k8 funcs="Int::div_rem_uint_vartime (mixed widths),Int::rem_uint_vartime" bound="u8 words, Int<2> by Uint<1>: n=[S(3),S(3)^sign] or [T(3),T(2)], d with true remainder magnitude >= 2^7: the returned remainder must satisfy n = q*d + r" free_bits=18 expect=finding:int_rem_uint_vartime_narrow_remainder
int2_by_uint1!(c14_k8_int2_by_uint1_vartime_wide_remainder, 1);
//@ name=c14_k8_int2_by_uint1_floor_vartime prop=C14,C11,C15 tier=quick profile=k8 funcs="Int::div_rem_floor_uint_vartime (mixed widths),Int::div_floor_uint_vartime,Int::normalized_rem_vartime" bound="u8 words, Int<2> by Uint<1>: n=[S(3),S(3)^sign] or [T(3),T(2)], every d != 0" free_bits=18
int2_by_uint1!(c14_k8_int2_by_uint1_floor_vartime, 2);
