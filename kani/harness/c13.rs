//! C13 — signed integers behave as two's-complement mathematical integers.
//! k64 harnesses: linear operations, all values.  (Multiplication is in c13m.rs, k8.)
use crate::__verif_common::*;
use crate::{Checked, CheckedAdd, CheckedSub, ConstChoice, Int, Limb, Uint, Word, Wrapping, WrappingAdd, WrappingNeg, WrappingSub};

fn ival(x: &Int<2>) -> i128 {
    to_u128(x.as_uint()) as i128
}

//@ prop=C13,C11 tier=quick profile=k64 funcs="Int::checked_add,Int::overflowing_add,Int::wrapping_add,CheckedAdd,CheckedSub,WrappingAdd,WrappingSub,Int::checked_neg,Int::overflowing_neg,Int::wrapping_neg,Int::wrapping_neg_if,Int::abs,Int::abs_sign,Wrapping<Int>,Checked<Int>" bound="Int<2>, all a,b, against native i128 checked/wrapping arithmetic" free_bits=257
#[kani::proof]
#[kani::unwind(6)]
fn c13_int2_addsubneg_vs_i128() {
    let a: Int<2> = Int::from_bits(any_uint());
    let b: Int<2> = Int::from_bits(any_uint());
    let (x, y) = (ival(&a), ival(&b));
    // add
    let ca = a.checked_add(&b);
    assert!(ca.is_some().to_bool_vartime() == x.checked_add(y).is_some());
    assert!(ival(&a.wrapping_add(&b)) == x.wrapping_add(y));
    let (s, o) = a.overflowing_add(&b);
    assert!(ival(&s) == x.wrapping_add(y) && o.to_bool_vartime() == x.checked_add(y).is_none());
    assert!(bool::from(CheckedAdd::checked_add(&a, &b).is_some()) == x.checked_add(y).is_some());
    assert!(ival(&WrappingAdd::wrapping_add(&a, &b)) == x.wrapping_add(y));
    if let Some(v) = x.checked_add(y) {
        assert!(ival(&ca.unwrap_or(Int::ZERO)) == v);
        assert!(ival(&(a + b)) == v && ival(&(a + &b)) == v);
        let mut t = a;
        t += b;
        assert!(ival(&t) == v);
    }
    // sub
    let cs = CheckedSub::checked_sub(&a, &b);
    assert!(bool::from(cs.is_some()) == x.checked_sub(y).is_some());
    assert!(ival(&WrappingSub::wrapping_sub(&a, &b)) == x.wrapping_sub(y));
    if let Some(v) = x.checked_sub(y) {
        assert!(ival(&cs.unwrap()) == v && ival(&(a - b)) == v && ival(&(a - &b)) == v);
    }
    // neg / abs
    assert!(a.checked_neg().is_some().to_bool_vartime() == x.checked_neg().is_some());
    assert!(ival(&a.wrapping_neg()) == x.wrapping_neg());
    let (n, no) = a.overflowing_neg();
    assert!(ival(&n) == x.wrapping_neg() && no.to_bool_vartime() == (x == i128::MIN));
    let c: bool = kani::any();
    assert!(ival(&a.wrapping_neg_if(ConstChoice::from_word_lsb(c as Word))) == if c { x.wrapping_neg() } else { x });
    let (mag, sgn) = a.abs_sign();
    assert!(to_u128(&mag) == x.unsigned_abs() && sgn.to_bool_vartime() == (x < 0));
    assert!(to_u128(&a.abs()) == x.unsigned_abs());
    // wrappers
    let mut w = Wrapping(a);
    w += Wrapping(b);
    assert!(ival(&w.0) == x.wrapping_add(y));
    let mut w2 = Wrapping(a);
    w2 -= &Wrapping(b);
    assert!(ival(&w2.0) == x.wrapping_sub(y));
    let mut ch = Checked::new(a);
    ch += Checked::new(b);
    assert!(bool::from(ch.0.is_some()) == x.checked_add(y).is_some());
    let mut ch2 = Checked::new(a);
    ch2 -= &Checked::new(b);
    assert!(bool::from(ch2.0.is_some()) == x.checked_sub(y).is_some());
    kani::cover!(x == i128::MIN && y == -1);
    kani::cover!(x == i128::MAX && y == 1);
    kani::cover!(x.checked_sub(y).is_none() && x >= 0);
}

//@ prop=C13,C11 tier=quick profile=k64 funcs="Int<2> add operator" bound="Int<2>, all a,b whose sum overflows: + must panic" free_bits=256 must_panic=1
#[kani::proof]
#[kani::unwind(6)]
fn c13_int2_add_op_panics_on_overflow() {
    let a: Int<2> = Int::from_bits(any_uint());
    let b: Int<2> = Int::from_bits(any_uint());
    kani::assume(ival(&a).checked_add(ival(&b)).is_none());
    let _ = a + b;
    must_have_panicked();
}

/// sign-extend a 3-limb pattern to 4 limbs
fn sext4(w: &[Word; 3]) -> [Word; 4] {
    let f = if w[2] >> 63 == 1 { Word::MAX } else { 0 };
    [w[0], w[1], w[2], f]
}
fn fits3(w: &[Word; 4]) -> bool {
    w[3] == if w[2] >> 63 == 1 { Word::MAX } else { 0 }
}

//@ prop=C13,C11 tier=quick profile=k64 funcs="Int::checked_add,Int::overflowing_add,Int::wrapping_add,CheckedSub for Int,Int::checked_neg,Int::overflowing_neg,Int::abs_sign" bound="Int<3>, all a,b, against a sign-extended 4-limb ripple reference" free_bits=384
#[kani::proof]
#[kani::unwind(8)]
fn c13_int3_addsubneg_vs_ripple() {
    let a: Int<3> = Int::from_bits(any_uint());
    let b: Int<3> = Int::from_bits(any_uint());
    let (aw, bw) = (words_of(a.as_uint()), words_of(b.as_uint()));
    let (a4, b4) = (sext4(&aw), sext4(&bw));
    let (s4, _) = ref_add(&a4, &b4, 0);
    let (d4, _) = ref_sub(&a4, &b4, 0);
    let zero = [0 as Word; 4];
    let (n4, _) = ref_sub(&zero, &a4, 0);
    let (s, o) = a.overflowing_add(&b);
    let sw = words_of(s.as_uint());
    assert!(sw[0] == s4[0] && sw[1] == s4[1] && sw[2] == s4[2]);
    assert!(o.to_bool_vartime() == !fits3(&s4));
    assert!(a.checked_add(&b).is_some().to_bool_vartime() == fits3(&s4));
    assert!(a.wrapping_add(&b) == s);
    let cs = CheckedSub::checked_sub(&a, &b);
    assert!(bool::from(cs.is_some()) == fits3(&d4));
    let dw = words_of(WrappingSub::wrapping_sub(&a, &b).as_uint());
    assert!(dw[0] == d4[0] && dw[1] == d4[1] && dw[2] == d4[2]);
    let (n, no) = a.overflowing_neg();
    let nw = words_of(n.as_uint());
    assert!(nw[0] == n4[0] && nw[1] == n4[1] && nw[2] == n4[2]);
    assert!(no.to_bool_vartime() == !fits3(&n4) && a.checked_neg().is_some().to_bool_vartime() == fits3(&n4));
    let (mag, sgn) = a.abs_sign();
    let neg = aw[2] >> 63 == 1;
    assert!(sgn.to_bool_vartime() == neg);
    let mw = words_of(&mag);
    let want = if neg { n4 } else { a4 };
    assert!(mw[0] == want[0] && mw[1] == want[1] && mw[2] == want[2]);
    kani::cover!(!fits3(&s4) && neg);
    kani::cover!(!fits3(&n4));
    kani::cover!(!fits3(&d4) && !neg);
}

macro_rules! from_abs_sign {
    ($name:ident, $L:expr) => {
        #[kani::proof]
        #[kani::unwind(8)]
        fn $name() {
            const L: usize = $L;
            let abs: Uint<L> = any_uint();
            let neg: bool = kani::any();
            let w = words_of(&abs);
            let r = Int::<L>::new_from_abs_sign(abs, ConstChoice::from_word_lsb(neg as Word));
            // |MIN| = 2^(BITS-1): top limb 0x80..0, every lower limb zero
            let top = w[L - 1];
            let mut lower_zero = true;
            let mut i = 0;
            while i + 1 < L {
                lower_zero &= w[i] == 0;
                i += 1;
            }
            let is_min_mag = top == (1 as Word) << 63 && lower_zero;
            let fits = top >> 63 == 0 || (neg && is_min_mag);
            assert!(r.is_some().to_bool_vartime() == fits);
            if fits {
                let v = r.unwrap_or(Int::ZERO);
                // reconstruct: magnitude and sign decompose back (zero has no sign)
                let (m2, s2) = v.abs_sign();
                assert!(m2 == abs);
                assert!(s2.to_bool_vartime() == (neg && !is_zero_words(&w)));
            }
            kani::cover!(neg && is_min_mag);
            kani::cover!(L == 1 || (neg && top == (1 as Word) << 63 && !lower_zero));
            kani::cover!(neg && is_zero_words(&w)); // "negative zero"
            kani::cover!(!neg && is_min_mag);
        }
    };
}
//@ name=c13_new_from_abs_sign_1 prop=C13,C06,C11 tier=quick profile=k64 funcs="Int::new_from_abs_sign,Int::abs_sign" bound="Int<1>: every magnitude and sign" free_bits=65
from_abs_sign!(c13_new_from_abs_sign_1, 1);
//@ name=c13_new_from_abs_sign_2 prop=C13,C06,C11 tier=quick profile=k64 funcs="Int::new_from_abs_sign,Int::abs_sign" bound="Int<2>: every magnitude and sign" free_bits=129 core=C11
from_abs_sign!(c13_new_from_abs_sign_2, 2);
//@ name=c13_new_from_abs_sign_4 prop=C13,C06,C11 tier=quick profile=k64 funcs="Int::new_from_abs_sign,Int::abs_sign" bound="Int<4>: every magnitude and sign" free_bits=257
from_abs_sign!(c13_new_from_abs_sign_4, 4);
