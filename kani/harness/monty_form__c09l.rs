//! C09 (lincomb part) — k8.  Child of `modular::monty_form` (builds MontyParams directly).
use super::{MontyForm, MontyParams};
use crate::__verif_common::*;
use crate::{Limb, Odd, Uint, Word};

/// textbook REDC, R = 2^16; products kept in u32 (operands < 2^16), only the final sum in u64
fn redc2(t: u32, m: u32, ninv16: u32) -> u32 {
    let u = (t & 0xffff).wrapping_mul(ninv16) & 0xffff;
    let s = ((t as u64 + (u * m) as u64) >> 16) as u32;
    if s >= m { s - m } else { s }
}
/// operand next to 0 or next to m
fn near<const L: usize>(mm: u64) -> Uint<L> {
    let k: u64 = (kani::any::<u8>() & 1) as u64;
    let hi: bool = kani::any();
    kani::assume(k < mm);
    from_u128((if hi { mm - 1 - k } else { k }) as u128)
}

macro_rules! lincomb_n {
    ($name:ident, $n:expr, $m:expr) => {
        #[kani::proof]
        #[kani::unwind(12)]
        fn $name() {
            let m: Uint<2> = $m;
            let mm = to_u64(&m);
            kani::assume(mm >= 3 && mm & 1 == 1);
            let ninv16: u16 = kani::any();
            kani::assume(ninv16.wrapping_mul(mm as u16).wrapping_add(1) == 0);
            // parameter set built directly: lincomb reads only modulus, mod_neg_inv and the clamped
            // leading-zero count (their derivation is C08's subject); one/r2/r3 are left arbitrary
            let params = MontyParams {
                modulus: Odd::new(m).unwrap(),
                one: any_uint(),
                r2: any_uint(),
                r3: any_uint(),
                mod_neg_inv: Limb(ninv16 as Word),
                mod_leading_zeros: if m.leading_zeros() < 7 { m.leading_zeros() } else { 7 },
            };
            let mut a = [MontyForm::zero(params); $n];
            let mut b = [MontyForm::zero(params); $n];
            let mut want: u32 = 0;
            let mut i = 0;
            while i < $n {
                let (x, y): (Uint<2>, Uint<2>) = (near(mm), near(mm));
                a[i] = MontyForm::from_montgomery(x, params);
                b[i] = MontyForm::from_montgomery(y, params);
                let t = redc2((to_u64(&x) as u32) * (to_u64(&y) as u32), mm as u32, ninv16 as u32);
                want = if want + t >= mm as u32 { want + t - mm as u32 } else { want + t };
                i += 1;
            }
            let mut refs = [(&a[0], &b[0]); $n];
            let mut i = 0;
            while i < $n {
                refs[i] = (&a[i], &b[i]);
                i += 1;
            }
            let r = MontyForm::lincomb_vartime(&refs);
            assert!(to_u64(r.as_montgomery()) as u32 == want);
            kani::cover!(mm > 0xff00 || mm < 0x8000);
        }
    };
}
//@ name=c09_k8_lincomb_1_top prop=C09,C11 tier=quick profile=k8 funcs="MontyForm::lincomb_vartime,lincomb_monty_form,impl_longa_monty_lincomb!" bound="u8 words, 2 limbs, 1 term, modulus with 0 leading zero bits m=[S(2)|1, 0xfc..0xff]: operands within 2 of 0 or m" free_bits=11
lincomb_n!(c09_k8_lincomb_1_top, 1, Uint::new([Limb(shaped_word(2) | 1), Limb(0xfc | (kani::any::<u8>() & 3))]));
//@ name=c09_k8_lincomb_2_lz1 prop=C09,C11 tier=quick profile=k8 funcs="MontyForm::lincomb_vartime,lincomb_monty_form,impl_longa_monty_lincomb!" bound="u8 words, 2 limbs, 2 terms = one full accumulation window for a modulus with 1 leading zero bit m=[S(2)|1, 0x7c..0x7f]: operands within 2 of 0 or m" free_bits=17
lincomb_n!(c09_k8_lincomb_2_lz1, 2, Uint::new([Limb(shaped_word(2) | 1), Limb(0x7c | (kani::any::<u8>() & 3))]));
//@ name=c09_k8_lincomb_3_lz1 prop=C09,C11 tier=thorough profile=k8 funcs="MontyForm::lincomb_vartime,lincomb_monty_form (windowed path: more terms than one window holds)" bound="u8 words, 2 limbs, 3 terms with max_accum = 2 (m=[S(2)|1, 0x7c..0x7f]): operands within 2 of 0 or m" free_bits=23
lincomb_n!(c09_k8_lincomb_3_lz1, 3, Uint::new([Limb(shaped_word(2) | 1), Limb(0x7c | (kani::any::<u8>() & 3))]));
//@ name=c09_k8_lincomb_2_top prop=C09,C11 tier=quick profile=k8 funcs="MontyForm::lincomb_vartime,lincomb_monty_form (windowed path)" bound="u8 words, 2 limbs, 2 terms with max_accum = 1 (m=[S(2)|1, 0xfc..0xff]): operands within 2 of 0 or m" free_bits=17
lincomb_n!(c09_k8_lincomb_2_top, 2, Uint::new([Limb(shaped_word(2) | 1), Limb(0xfc | (kani::any::<u8>() & 3))]));
//@ name=c09_k8_lincomb_4_lz2 prop=C09,C11 tier=thorough profile=k8 funcs="MontyForm::lincomb_vartime,lincomb_monty_form" bound="u8 words, 2 limbs, 4 terms = one full window for 2 leading zero bits (m=[S(2)|1, 0x3c..0x3f])" free_bits=29
lincomb_n!(c09_k8_lincomb_4_lz2, 4, Uint::new([Limb(shaped_word(2) | 1), Limb(0x3c | (kani::any::<u8>() & 3))]));

//@ prop=C09,C11,C08 tier=quick profile=k8 funcs="MontyParams::new_vartime,MontyParams::new (leading-zero clamp),MontyForm::lincomb_vartime,lincomb_monty_form" bound="u8 words, 2 limbs, modulus with a zero high limb m=[S(2)|1, 0] >= 3 (8 or more leading zero bits, incl. exactly Limb::BITS), parameters from both constructors, 1 term within 2 of 0 or m: no overflow trap, result = the REDC product" free_bits=8 core=C11
#[kani::proof]
#[kani::unwind(12)]
fn c09_k8_lincomb_constructed_params_high_limb_zero() {
    let m = Uint::<2>::new([Limb(shaped_word(2) | 1), Limb(0)]);
    let mm = to_u64(&m);
    kani::assume(mm >= 3);
    let ninv16: u16 = kani::any();
    kani::assume(ninv16.wrapping_mul(mm as u16).wrapping_add(1) == 0);
    let vt: bool = kani::any();
    let params = if vt { MontyParams::new_vartime(Odd::new(m).unwrap()) } else { MontyParams::new(Odd::new(m).unwrap()) };
    assert!(params.mod_leading_zeros == 7); // clamped to Word::BITS - 1
    let (x0, y0): (Uint<2>, Uint<2>) = (near(mm), near(mm));
    let a = MontyForm::from_montgomery(x0, params);
    let b = MontyForm::from_montgomery(y0, params);
    let r = MontyForm::lincomb_vartime(&[(&a, &b)]);
    let want = redc2((to_u64(&x0) as u32) * (to_u64(&y0) as u32), mm as u32, ninv16 as u32);
    assert!(to_u64(r.as_montgomery()) as u32 == want);
    kani::cover!(mm == 0xff && vt);
    kani::cover!(mm == 3 && !vt);
}
