//! C06 — comparison / equality / hashing / conditional selection coherence (k64, all values).
use crate::__verif_common::boxed::*;
use crate::__verif_common::*;
use crate::{BoxedUint, ConstChoice, ConstantTimeSelect, Int, Integer, Limb, NonZero, Odd, Uint, WideWord, Word, Zero};
use core::cmp::Ordering;
use core::hash::{Hash, Hasher};
use subtle::{
    Choice, ConditionallyNegatable, ConditionallySelectable, ConstantTimeEq, ConstantTimeGreater, ConstantTimeLess,
};

fn ord_of(lt: bool, eq: bool) -> Ordering {
    if lt {
        Ordering::Less
    } else if eq {
        Ordering::Equal
    } else {
        Ordering::Greater
    }
}

//@ prop=C06,C11 tier=quick profile=k64 funcs="ConstChoice::from_word_lt,from_word_gt,from_word_le,from_word_eq,from_word_nonzero,from_word_lsb,from_word_msb,from_word_mask,from_u32_lt,from_u32_le,from_u32_eq,from_u32_nonzero,from_u32_lsb,from_u64_lt,from_u64_gt,from_u64_eq,from_u64_nonzero,from_u64_lsb,from_wide_word_le,from_wide_word_lsb,select_word,select_u32,select_u64,select_wide_word,if_true_word,if_true_u32,not,and,or,xor,eq,ne" bound="all word / u32 / u64 / wide-word pairs" free_bits=640
#[kani::proof]
fn c06_const_choice_predicates() {
    let x: Word = kani::any();
    let y: Word = kani::any();
    assert!(ConstChoice::from_word_lt(x, y).to_bool_vartime() == (x < y));
    assert!(ConstChoice::from_word_gt(x, y).to_bool_vartime() == (x > y));
    assert!(ConstChoice::from_word_le(x, y).to_bool_vartime() == (x <= y));
    assert!(ConstChoice::from_word_eq(x, y).to_bool_vartime() == (x == y));
    assert!(ConstChoice::from_word_nonzero(x).to_bool_vartime() == (x != 0));
    assert!(ConstChoice::from_word_lsb(x & 1).to_bool_vartime() == (x & 1 == 1));
    assert!(ConstChoice::from_word_msb(x).to_bool_vartime() == (x >> (Word::BITS - 1) == 1));
    let a: u32 = kani::any();
    let b: u32 = kani::any();
    assert!(ConstChoice::from_u32_lt(a, b).to_bool_vartime() == (a < b));
    assert!(ConstChoice::from_u32_le(a, b).to_bool_vartime() == (a <= b));
    assert!(ConstChoice::from_u32_eq(a, b).to_bool_vartime() == (a == b));
    assert!(ConstChoice::from_u32_nonzero(a).to_bool_vartime() == (a != 0));
    assert!(ConstChoice::from_u32_lsb(a & 1).to_bool_vartime() == (a & 1 == 1));
    let p: u64 = kani::any();
    let q: u64 = kani::any();
    assert!(ConstChoice::from_u64_lt(p, q).to_bool_vartime() == (p < q));
    assert!(ConstChoice::from_u64_gt(p, q).to_bool_vartime() == (p > q));
    assert!(ConstChoice::from_u64_eq(p, q).to_bool_vartime() == (p == q));
    assert!(ConstChoice::from_u64_nonzero(p).to_bool_vartime() == (p != 0));
    assert!(ConstChoice::from_u64_lsb(p & 1).to_bool_vartime() == (p & 1 == 1));
    let u: WideWord = kani::any();
    let v: WideWord = kani::any();
    assert!(ConstChoice::from_wide_word_le(u, v).to_bool_vartime() == (u <= v));
    assert!(ConstChoice::from_wide_word_lsb(u & 1).to_bool_vartime() == (u & 1 == 1));
    // selection: exactly one operand, never a mixture
    let c: bool = kani::any();
    let d: bool = kani::any();
    let cc = ConstChoice::from_word_lsb(c as Word);
    let dc = ConstChoice::from_word_lsb(d as Word);
    assert!(cc.select_word(x, y) == if c { y } else { x });
    assert!(cc.select_u32(a, b) == if c { b } else { a });
    assert!(cc.select_u64(p, q) == if c { q } else { p });
    assert!(cc.select_wide_word(u, v) == if c { v } else { u });
    assert!(cc.if_true_word(x) == if c { x } else { 0 });
    assert!(cc.if_true_u32(a) == if c { a } else { 0 });
    assert!(cc.not().to_bool_vartime() == !c);
    assert!(cc.and(dc).to_bool_vartime() == (c && d) && cc.or(dc).to_bool_vartime() == (c || d));
    assert!(cc.xor(dc).to_bool_vartime() == (c ^ d) && cc.ne(dc).to_bool_vartime() == (c != d) && cc.eq(dc).to_bool_vartime() == (c == d));
    assert!(cc.to_u8() == c as u8 && cc.is_true_vartime() == c);
    assert!(ConstChoice::from_word_mask(if c { Word::MAX } else { 0 }).to_bool_vartime() == c);
    assert!(bool::from(Choice::from(cc)) == c && ConstChoice::from(Choice::from(c as u8)).to_bool_vartime() == c);
    kani::cover!(x == y && u == v);
}

macro_rules! uint_cmp {
    ($name:ident, $L:expr) => {
        #[kani::proof]
        #[kani::unwind(10)]
        fn $name() {
            const L: usize = $L;
            let a: Uint<L> = any_uint();
            let b: Uint<L> = any_uint();
            let (aw, bw) = (words_of(&a), words_of(&b));
            let lt = ref_lt(&aw, &bw);
            let eq = words_eq(&aw, &bw);
            let gt = ref_lt(&bw, &aw);
            assert!(Uint::eq(&a, &b).to_bool_vartime() == eq);
            assert!(Uint::lt(&a, &b).to_bool_vartime() == lt);
            assert!(Uint::gt(&a, &b).to_bool_vartime() == gt);
            assert!(Uint::lte(&a, &b).to_bool_vartime() == (lt || eq));
            let c = Uint::cmp(&a, &b);
            assert!(c == if lt { -1 } else if eq { 0 } else { 1 });
            assert!(a.cmp_vartime(&b) == ord_of(lt, eq));
            assert!(bool::from(a.ct_eq(&b)) == eq && bool::from(a.ct_lt(&b)) == lt && bool::from(a.ct_gt(&b)) == gt);
            assert!((a == b) == eq && (a != b) == !eq);
            assert!((a < b) == lt && (a > b) == gt && (a <= b) == (lt || eq) && (a >= b) == (gt || eq));
            assert!(Ord::cmp(&a, &b) == ord_of(lt, eq) && a.partial_cmp(&b) == Some(ord_of(lt, eq)));
            // zero / one / odd / even
            let z = is_zero_words(&aw);
            assert!(a.is_nonzero().to_bool_vartime() == !z);
            assert!(bool::from(Zero::is_zero(&a)) == z);
            assert!(a.is_odd().to_bool_vartime() == (aw[0] & 1 == 1));
            assert!(bool::from(Integer::is_odd(&a)) == (aw[0] & 1 == 1) && bool::from(Integer::is_even(&a)) == (aw[0] & 1 == 0));
            kani::cover!(eq);
            kani::cover!(L == 1 || (lt && aw[L - 1] == bw[L - 1])); // differ only below the top limb
            kani::cover!(L == 1 || (gt && aw[0] == bw[0]));
        }
    };
}
//@ name=c06_uint1_cmp prop=C06,C11,C15 tier=quick profile=k64 funcs="Uint::eq,Uint::lt,Uint::gt,Uint::lte,Uint::cmp,Uint::cmp_vartime,ct_eq,ct_lt,ct_gt,PartialEq,PartialOrd,Ord,is_nonzero,is_zero,is_odd,is_even" bound="Uint<1>, all pairs" free_bits=128
uint_cmp!(c06_uint1_cmp, 1);
//@ name=c06_uint2_cmp prop=C06,C11,C15 tier=quick profile=k64 funcs="Uint::eq,Uint::lt,Uint::gt,Uint::lte,Uint::cmp,Uint::cmp_vartime,ct_eq,ct_lt,ct_gt,PartialEq,PartialOrd,Ord,is_nonzero,is_zero,is_odd,is_even" bound="Uint<2>, all pairs" free_bits=256 core=C15
uint_cmp!(c06_uint2_cmp, 2);
//@ name=c06_uint3_cmp prop=C06,C11,C15 tier=quick profile=k64 funcs="Uint::eq,Uint::lt,Uint::gt,Uint::lte,Uint::cmp,Uint::cmp_vartime,ct_eq,ct_lt,ct_gt,PartialEq,PartialOrd,Ord,is_nonzero,is_zero,is_odd,is_even" bound="Uint<3>, all pairs" free_bits=384
uint_cmp!(c06_uint3_cmp, 3);
//@ name=c06_uint4_cmp prop=C06,C11,C15 tier=quick profile=k64 funcs="Uint::eq,Uint::lt,Uint::gt,Uint::lte,Uint::cmp,Uint::cmp_vartime,ct_eq,ct_lt,ct_gt,PartialEq,PartialOrd,Ord,is_nonzero,is_zero,is_odd,is_even" bound="Uint<4>, all pairs" free_bits=512
uint_cmp!(c06_uint4_cmp, 4);
//@ name=c06_uint8_cmp prop=C06,C11,C15 tier=thorough profile=k64 funcs="Uint::eq,Uint::lt,Uint::gt,Uint::lte,Uint::cmp,Uint::cmp_vartime,ct_eq,ct_lt,ct_gt,PartialEq,PartialOrd,Ord" bound="Uint<8>, all pairs" free_bits=1024
uint_cmp!(c06_uint8_cmp, 8);

//@ prop=C06,C11 tier=quick profile=k64 funcs="Uint cmp family,Limb cmp family" bound="Uint<2> and Limb, all pairs, against native u128 / u64 comparison" free_bits=384
#[kani::proof]
#[kani::unwind(4)]
fn c06_uint2_limb_cmp_vs_native() {
    let a: Uint<2> = any_uint();
    let b: Uint<2> = any_uint();
    let (x, y) = (to_u128(&a), to_u128(&b));
    assert!(Ord::cmp(&a, &b) == x.cmp(&y) && a.cmp_vartime(&b) == x.cmp(&y));
    assert!((a == b) == (x == y) && (a < b) == (x < y));
    let p: Word = kani::any();
    let q: Word = kani::any();
    let (lp, lq) = (Limb(p), Limb(q));
    assert!(Ord::cmp(&lp, &lq) == p.cmp(&q) && lp.cmp_vartime(&lq) == p.cmp(&q) && lp.partial_cmp(&lq) == Some(p.cmp(&q)));
    assert!((lp == lq) == (p == q) && lp.eq_vartime(&lq) == (p == q));
    assert!(bool::from(lp.ct_eq(&lq)) == (p == q) && bool::from(lp.ct_lt(&lq)) == (p < q) && bool::from(lp.ct_gt(&lq)) == (p > q));
    assert!(bool::from(lp.is_odd()) == (p & 1 == 1) && lp.is_nonzero().to_bool_vartime() == (p != 0));
    assert!(bool::from(Zero::is_zero(&lp)) == (p == 0));
}

macro_rules! int_cmp {
    ($name:ident, $L:expr) => {
        #[kani::proof]
        #[kani::unwind(8)]
        fn $name() {
            const L: usize = $L;
            let a: Int<L> = Int::from_bits(any_uint());
            let b: Int<L> = Int::from_bits(any_uint());
            let (aw, bw) = (words_of(a.as_uint()), words_of(b.as_uint()));
            let (an, bn) = (aw[L - 1] >> (Word::BITS - 1) == 1, bw[L - 1] >> (Word::BITS - 1) == 1);
            // two's complement order: negative < non-negative; same sign -> unsigned order of the bit patterns
            let lt = if an != bn { an } else { ref_lt(&aw, &bw) };
            let eq = words_eq(&aw, &bw);
            let gt = !lt && !eq;
            assert!(Int::eq(&a, &b).to_bool_vartime() == eq);
            assert!(Int::lt(&a, &b).to_bool_vartime() == lt);
            assert!(Int::gt(&a, &b).to_bool_vartime() == gt);
            assert!(Int::cmp(&a, &b) == if lt { -1 } else if eq { 0 } else { 1 });
            assert!(a.cmp_vartime(&b) == ord_of(lt, eq));
            assert!(bool::from(a.ct_eq(&b)) == eq && bool::from(a.ct_lt(&b)) == lt && bool::from(a.ct_gt(&b)) == gt);
            assert!((a == b) == eq && (a < b) == lt && (a > b) == gt);
            assert!(Ord::cmp(&a, &b) == ord_of(lt, eq) && a.partial_cmp(&b) == Some(ord_of(lt, eq)));
            assert!(a.is_nonzero().to_bool_vartime() == !is_zero_words(&aw));
            assert!(a.is_negative().to_bool_vartime() == an && a.is_positive().to_bool_vartime() == (!an && !is_zero_words(&aw)));
            assert!(a.is_min().to_bool_vartime() == (a == Int::<L>::MIN) && a.is_max().to_bool_vartime() == (a == Int::<L>::MAX));
            kani::cover!(an && !bn);
            kani::cover!(an && bn && lt);
            kani::cover!(eq && an);
            kani::cover!(a == Int::<L>::MIN && b == Int::<L>::MAX);
        }
    };
}
//@ name=c06_int1_cmp prop=C06,C13,C11 tier=quick profile=k64 funcs="Int::eq,Int::lt,Int::gt,Int::cmp,Int::cmp_vartime,ct_eq,ct_lt,ct_gt,Ord,PartialOrd,PartialEq,is_negative,is_positive,is_min,is_max" bound="Int<1>, all pairs" free_bits=128
int_cmp!(c06_int1_cmp, 1);
//@ name=c06_int2_cmp prop=C06,C13,C11 tier=quick profile=k64 funcs="Int::eq,Int::lt,Int::gt,Int::cmp,Int::cmp_vartime,ct_eq,ct_lt,ct_gt,Ord,PartialOrd,PartialEq,is_negative,is_positive,is_min,is_max" bound="Int<2>, all pairs" free_bits=256
int_cmp!(c06_int2_cmp, 2);
//@ name=c06_int3_cmp prop=C06,C13,C11 tier=quick profile=k64 funcs="Int::eq,Int::lt,Int::gt,Int::cmp,Int::cmp_vartime,ct_eq,ct_lt,ct_gt,Ord,PartialOrd,PartialEq,is_negative,is_positive,is_min,is_max" bound="Int<3>, all pairs" free_bits=384
int_cmp!(c06_int3_cmp, 3);

//@ prop=C06,C13 tier=quick profile=k64 funcs="Int cmp family" bound="Int<2>, all pairs, against native i128 comparison" free_bits=256
#[kani::proof]
#[kani::unwind(4)]
fn c06_int2_cmp_vs_i128() {
    let a: Int<2> = Int::from_bits(any_uint());
    let b: Int<2> = Int::from_bits(any_uint());
    let (x, y) = (to_u128(a.as_uint()) as i128, to_u128(b.as_uint()) as i128);
    assert!(Ord::cmp(&a, &b) == x.cmp(&y) && a.cmp_vartime(&b) == x.cmp(&y));
    assert!((a < b) == (x < y) && (a == b) == (x == y));
}

// ---------------------------------------------------------------- boxed, equal and different precision
macro_rules! boxed_cmp {
    ($name:ident, $N:expr, $M:expr) => {
        #[kani::proof]
        #[kani::unwind(8)]
        fn $name() {
            const W: usize = if $N > $M { $N } else { $M };
            let a = any_boxed($N);
            let b = any_boxed($M);
            let aw: [Word; W] = bwords(&a);
            let bw: [Word; W] = bwords(&b);
            let lt = ref_lt(&aw, &bw);
            let eq = words_eq(&aw, &bw);
            let gt = !lt && !eq;
            assert!(bool::from(a.ct_eq(&b)) == eq && bool::from(b.ct_eq(&a)) == eq);
            assert!((a == b) == eq && (b == a) == eq);
            assert!(bool::from(a.ct_lt(&b)) == lt && bool::from(a.ct_gt(&b)) == gt);
            assert!(bool::from(b.ct_gt(&a)) == lt && bool::from(b.ct_lt(&a)) == gt);
            assert!(Ord::cmp(&a, &b) == ord_of(lt, eq) && a.partial_cmp(&b) == Some(ord_of(lt, eq)));
            if $N == $M {
                assert!(a.cmp_vartime(&b) == ord_of(lt, eq));
            }
            assert!(bool::from(a.is_zero()) == is_zero_words(&aw) && bool::from(a.is_nonzero()) == !is_zero_words(&aw));
            assert!(bool::from(Integer::is_odd(&a)) == (aw[0] & 1 == 1));
            let mut one = [0 as Word; W];
            one[0] = 1;
            assert!(bool::from(a.is_one()) == words_eq(&aw, &one));
            kani::cover!(eq);
            kani::cover!(lt);
            kani::cover!($N < $M || (gt && aw[0] == bw[0]));
            core::mem::forget(a);
            core::mem::forget(b);
        }
    };
}
//@ name=c06_boxed_cmp_2_2 prop=C06,C11,C15 tier=quick profile=k64 funcs="BoxedUint::ct_eq,ct_lt,ct_gt,PartialEq,Ord,PartialOrd,cmp_vartime,is_zero,is_nonzero,is_one,is_odd" bound="BoxedUint 2 limbs vs 2 limbs, all pairs" free_bits=256
boxed_cmp!(c06_boxed_cmp_2_2, 2, 2);
//@ name=c06_boxed_cmp_1_3 prop=C06,C11,C15 tier=quick profile=k64 funcs="BoxedUint::ct_eq,ct_lt,ct_gt,PartialEq,Ord,PartialOrd,is_zero,is_one" bound="BoxedUint 1 limb vs 3 limbs (different precision, zero padding), all pairs" free_bits=256 core=C15
boxed_cmp!(c06_boxed_cmp_1_3, 1, 3);
//@ name=c06_boxed_cmp_3_2 prop=C06,C11,C15 tier=quick profile=k64 funcs="BoxedUint::ct_eq,ct_lt,ct_gt,PartialEq,Ord,PartialOrd,is_zero,is_one" bound="BoxedUint 3 limbs vs 2 limbs (different precision), all pairs" free_bits=320
boxed_cmp!(c06_boxed_cmp_3_2, 3, 2);
//@ name=c06_boxed_cmp_4_4 prop=C06,C11,C15 tier=thorough profile=k64 funcs="BoxedUint::ct_eq,ct_lt,ct_gt,PartialEq,Ord,PartialOrd,cmp_vartime" bound="BoxedUint 4 limbs vs 4 limbs, all pairs" free_bits=512
boxed_cmp!(c06_boxed_cmp_4_4, 4, 4);
//@ name=c06_boxed_cmp_4_1 prop=C06,C11,C15 tier=thorough profile=k64 funcs="BoxedUint::ct_eq,ct_lt,ct_gt,PartialEq,Ord,PartialOrd" bound="BoxedUint 4 limbs vs 1 limb, all pairs" free_bits=320
boxed_cmp!(c06_boxed_cmp_4_1, 4, 1);

// ---------------------------------------------------------------- hashing
/// Records the byte stream instead of mixing it.
struct Rec {
    buf: [u8; 96],
    n: usize,
}
impl Rec {
    fn new() -> Self {
        Rec { buf: [0; 96], n: 0 }
    }
}
impl Hasher for Rec {
    fn finish(&self) -> u64 {
        0
    }
    fn write(&mut self, b: &[u8]) {
        for &x in b {
            if self.n < 96 {
                self.buf[self.n] = x;
            }
            self.n += 1;
        }
    }
}
fn same_stream(a: &Rec, b: &Rec) -> bool {
    if a.n != b.n {
        return false;
    }
    let mut ok = true;
    let mut i = 0;
    while i < 96 {
        ok &= a.buf[i] == b.buf[i];
        i += 1;
    }
    ok
}

//@ prop=C06 tier=quick profile=k64 funcs="Hash for Uint,Hash for Int,Hash for Limb,Hash for NonZero,Hash for Odd" bound="Uint<2>, Int<2>, Limb, NonZero<Uint<2>>, Odd<Uint<2>>: all pairs; a == b implies identical hashed byte streams" free_bits=256
#[kani::proof]
#[kani::unwind(100)]
fn c06_hash_eq_coherent_fixed() {
    let a: Uint<2> = any_uint();
    let b: Uint<2> = any_uint();
    let (mut ha, mut hb) = (Rec::new(), Rec::new());
    a.hash(&mut ha);
    b.hash(&mut hb);
    assert!(!(a == b) || same_stream(&ha, &hb));
    let (ia, ib) = (Int::from_bits(a), Int::from_bits(b));
    let (mut ha, mut hb) = (Rec::new(), Rec::new());
    ia.hash(&mut ha);
    ib.hash(&mut hb);
    assert!(!(ia == ib) || same_stream(&ha, &hb));
    let (la, lb) = (a.as_limbs()[0], b.as_limbs()[0]);
    let (mut ha, mut hb) = (Rec::new(), Rec::new());
    la.hash(&mut ha);
    lb.hash(&mut hb);
    assert!(!(la == lb) || same_stream(&ha, &hb));
    let (na, nb) = (NonZero(a), NonZero(b));
    let (mut ha, mut hb) = (Rec::new(), Rec::new());
    na.hash(&mut ha);
    nb.hash(&mut hb);
    assert!(!(na == nb) || same_stream(&ha, &hb));
    kani::cover!(a == b);
}

//@ prop=C06 tier=quick profile=k64 funcs="Hash for BoxedUint,PartialEq for BoxedUint" bound="BoxedUint of equal precision (2 limbs), all pairs: equal values hash to identical streams" free_bits=256
#[kani::proof]
#[kani::unwind(100)]
fn c06_hash_eq_coherent_boxed_same_precision() {
    let a = any_boxed(2);
    let b = any_boxed(2);
    let (mut ha, mut hb) = (Rec::new(), Rec::new());
    a.hash(&mut ha);
    b.hash(&mut hb);
    assert!(!(a == b) || same_stream(&ha, &hb));
    kani::cover!(a == b);
    core::mem::forget(a);
    core::mem::forget(b);
}

//@ prop=C06 tier=quick profile=k64 funcs="Hash for BoxedUint,PartialEq for BoxedUint" bound="BoxedUint 2 limbs vs 3 limbs, all pairs: values that compare equal (zero padded) must hash equally" free_bits=320 expect=finding:boxed_hash_precision
#[kani::proof]
#[kani::unwind(100)]
fn c06_hash_eq_boxed_mixed_precision() {
    let a = any_boxed(2);
    let b = any_boxed(3);
    let (mut ha, mut hb) = (Rec::new(), Rec::new());
    a.hash(&mut ha);
    b.hash(&mut hb);
    assert!(!(a == b) || same_stream(&ha, &hb));
    core::mem::forget(a);
    core::mem::forget(b);
}

// ---------------------------------------------------------------- conditional selection
//@ prop=C06,C11 tier=quick profile=k64 funcs="Uint::select,Uint::conditional_select,conditional_assign,conditional_swap,ct_select,ct_assign,ct_swap,Int::select,Int::conditional_select,Limb::select,Limb::conditional_select,NonZero/Odd conditional_select,Uint::wrapping_neg_if,conditional_negate" bound="Uint<3>, Int<3>, Limb, NonZero, Odd: all operand pairs, both choices" free_bits=386
#[kani::proof]
#[kani::unwind(8)]
fn c06_select_fixed() {
    let a: Uint<3> = any_uint();
    let b: Uint<3> = any_uint();
    let c: bool = kani::any();
    let ch = Choice::from(c as u8);
    let cc = ConstChoice::from_word_lsb(c as Word);
    let want = if c { b } else { a };
    assert!(Uint::select(&a, &b, cc) == want);
    assert!(Uint::conditional_select(&a, &b, ch) == want);
    assert!(Uint::ct_select(&a, &b, ch) == want);
    let mut t = a;
    t.conditional_assign(&b, ch);
    assert!(t == want);
    let mut t = a;
    t.ct_assign(&b, ch);
    assert!(t == want);
    let (mut x, mut y) = (a, b);
    Uint::conditional_swap(&mut x, &mut y, ch);
    assert!(x == want && y == if c { a } else { b });
    let (mut x, mut y) = (a, b);
    Uint::ct_swap(&mut x, &mut y, ch);
    assert!(x == want && y == if c { a } else { b });
    let (ia, ib) = (Int::from_bits(a), Int::from_bits(b));
    assert!(Int::select(&ia, &ib, cc) == if c { ib } else { ia });
    assert!(Int::conditional_select(&ia, &ib, ch) == if c { ib } else { ia });
    let (la, lb) = (a.as_limbs()[0], b.as_limbs()[1]);
    assert!(Limb::select(la, lb, cc) == if c { lb } else { la });
    assert!(Limb::conditional_select(&la, &lb, ch) == if c { lb } else { la });
    let (na, nb) = (NonZero(a), NonZero(b));
    assert!(NonZero::conditional_select(&na, &nb, ch).0 == want);
    let (oa, ob) = (Odd(a), Odd(b));
    assert!(Odd::conditional_select(&oa, &ob, ch).0 == want);
    // conditional negation
    assert!(ia.wrapping_neg_if(cc) == if c { ia.wrapping_neg() } else { ia });
    assert!(a.wrapping_neg_if(cc) == if c { a.wrapping_neg() } else { a });
}

//@ prop=C06,C11 tier=quick profile=k64 funcs="BoxedUint::ct_select,ct_assign,ct_swap,conditional_negate" bound="BoxedUint 3 limbs, all operand pairs, both choices" free_bits=385
#[kani::proof]
#[kani::unwind(8)]
fn c06_select_boxed() {
    let a = any_boxed(3);
    let b = any_boxed(3);
    let aw: [Word; 3] = bwords(&a);
    let bw: [Word; 3] = bwords(&b);
    let c: bool = kani::any();
    let ch = Choice::from(c as u8);
    let want = if c { bw } else { aw };
    let other = if c { aw } else { bw };
    let s = BoxedUint::ct_select(&a, &b, ch);
    assert!(words_eq(&bwords::<3>(&s), &want) && s.nlimbs() == 3);
    let mut t = a.clone();
    t.ct_assign(&b, ch);
    assert!(words_eq(&bwords::<3>(&t), &want));
    let (mut x, mut y) = (a.clone(), b.clone());
    BoxedUint::ct_swap(&mut x, &mut y, ch);
    assert!(words_eq(&bwords::<3>(&x), &want) && words_eq(&bwords::<3>(&y), &other));
    let mut n = a.clone();
    n.conditional_negate(ch);
    let zero = [0 as Word; 3];
    let (neg, _) = ref_sub(&zero, &aw, 0);
    assert!(words_eq(&bwords::<3>(&n), if c { &neg } else { &aw }));
    core::mem::forget((a, b, s, t, x, y, n));
}
