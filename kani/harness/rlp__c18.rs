//! C18 — RLP codec (k64, feature rlp).  Child of `uint::encoding::rlp`.
use crate::__verif_common::*;
use crate::{U128, U64};

// NOTE: rlp::encode (RlpStream over bytes::BytesMut) does not finish under CBMC even for the single
// value 0 (300 s); the encode side of the RLP codec is therefore NOT claimed (DESIGN.md C18).  The
// decoder below is checked on every single-item input up to capacity+1: it accepts only canonical
// strings, so whatever the encoder emits decodes to the right value or is rejected.

macro_rules! rlp_decode_len {
    ($name:ident, $LEN:expr) => {
        #[kani::proof]
        #[kani::unwind(14)]
        fn $name() {
            let buf: [u8; $LEN] = kani::any();
            let r = rlp::decode::<U64>(&buf);
            // the input is exactly one RLP string item (the rlp crate itself ignores trailing octets and
            // decodes the first item; that is third-party behaviour and outside this crate's codec)
            let one_item = (buf[0] < 0x80 && $LEN == 1) || (buf[0] >= 0x80 && buf[0] <= 0xb7 && $LEN == (buf[0] - 0x80) as usize + 1);
            if !one_item {
                return; // only totality (no panic) is claimed for such inputs
            }
            if let Ok(x) = r {
                // accepted => the input is exactly the canonical encoding of the returned value
                let v = to_u128(&x) as u64;
                let n = ((64 - v.leading_zeros()) as usize + 7) / 8;
                if v == 0 {
                    assert!($LEN == 1 && buf[0] == 0x80);
                } else if v < 0x80 {
                    assert!($LEN == 1 && buf[0] == v as u8);
                } else {
                    assert!($LEN == n + 1 && buf[0] == 0x80 + n as u8);
                    let mut acc: u64 = 0;
                    let mut i = 1;
                    while i < $LEN {
                        acc = (acc << 8) | buf[i] as u64;
                        i += 1;
                    }
                    assert!(acc == v && buf[if $LEN > 1 { 1 } else { 0 }] != 0);
                }
            }
            kani::cover!(r.is_ok() || $LEN > 9);
            kani::cover!(r.is_err());
        }
    };
}
//@ name=c18_rlp_decode_len1 prop=C18,C11 tier=quick profile=k64 funcs="rlp::Decodable::decode for Uint" bound="U64: every 1-octet input (incl. the lone 0x00): accepted only if canonical" free_bits=8
rlp_decode_len!(c18_rlp_decode_len1, 1);
//@ name=c18_rlp_decode_len2 prop=C18,C11 tier=quick profile=k64 funcs="rlp::Decodable::decode for Uint" bound="U64: every 2-octet input" free_bits=16
rlp_decode_len!(c18_rlp_decode_len2, 2);
//@ name=c18_rlp_decode_len3 prop=C18,C11 tier=quick profile=k64 funcs="rlp::Decodable::decode for Uint" bound="U64: every 3-octet input" free_bits=24
rlp_decode_len!(c18_rlp_decode_len3, 3);
//@ name=c18_rlp_decode_len9 prop=C18,C11 tier=quick profile=k64 funcs="rlp::Decodable::decode for Uint" bound="U64: every 9-octet input (capacity)" free_bits=72
rlp_decode_len!(c18_rlp_decode_len9, 9);
//@ name=c18_rlp_decode_len10 prop=C18,C11 tier=quick profile=k64 funcs="rlp::Decodable::decode for Uint" bound="U64: every 10-octet input (one above capacity): never accepted" free_bits=80 core=C11
rlp_decode_len!(c18_rlp_decode_len10, 10);
