//! C17 — radix strings.  Child of `uint::encoding` (private kernels).  Radix and string length are
//! concrete per harness instance (they are public and the per-radix constants then fold); the string
//! bytes are symbolic over the whole ASCII alphabet.
use super::{radix_encode_limbs_by_shifting, RadixDivisionParams};
use crate::__verif_common::*;
use crate::{DecodeError, Limb, Uint, Word};

fn digit_of(c: u8) -> Option<u8> {
    match c {
        b'0'..=b'9' => Some(c - b'0'),
        b'a'..=b'z' => Some(c - b'a' + 10),
        b'A'..=b'Z' => Some(c - b'A' + 10),
        _ => None,
    }
}

/// Reference reading of a numeral: Ok(Some(v)) value (saturating at u128::MAX on overflow of u128),
/// Ok(None) for "not a numeral" split in (empty, invalid).
#[derive(PartialEq, Eq, Clone, Copy)]
enum Ref {
    Empty,
    Invalid,
    Value(u128),
}
fn reference<const N: usize>(s: &[u8; N], radix: u8) -> Ref {
    let start = if N > 0 && s[0] == b'+' { 1 } else { 0 };
    if start == N {
        return Ref::Empty;
    }
    if s[start] == b'_' || s[N - 1] == b'_' {
        return Ref::Invalid;
    }
    let mut v: u128 = 0;
    let mut i = start;
    while i < N {
        if s[i] != b'_' {
            match digit_of(s[i]) {
                Some(d) if d < radix => v = v * radix as u128 + d as u128,
                _ => return Ref::Invalid,
            }
        }
        i += 1;
    }
    Ref::Value(v)
}

macro_rules! parse_len {
    ($name:ident, $L:expr, $radix:expr, $N:expr, $unwind:expr) => {
        #[kani::proof]
        #[kani::unwind($unwind)]
        fn $name() {
            let s: [u8; $N] = kani::any();
            let mut i = 0;
            while i < $N {
                kani::assume(s[i] < 0x80);
                i += 1;
            }
            let txt = unsafe { core::str::from_utf8_unchecked(&s) };
            let r = Uint::<$L>::from_str_radix_vartime(txt, $radix);
            let bits = 8 * core::mem::size_of::<Word>() as u32 * $L;
            match reference(&s, $radix) {
                Ref::Empty => assert!(r == Err(DecodeError::Empty)),
                Ref::Invalid => assert!(r == Err(DecodeError::InvalidDigit)),
                Ref::Value(v) => {
                    if bits >= 128 || v >> bits == 0 {
                        match r {
                            Ok(x) => assert!(to_u128(&x) == v),
                            Err(_) => assert!(false),
                        }
                    } else {
                        assert!(r == Err(DecodeError::InputSize)); // never a wrapped value
                    }
                }
            }
            kani::cover!(r.is_ok());
            kani::cover!(r == Err(DecodeError::InvalidDigit));
        }
    };
}

// The parser is checked on the 8-bit-word build only: there 3 digits already cross 2^BITS (overflow
// reporting), and the helper loops (ilog, pow, buffer fill) stay within a small exact unwind bound;
// on 64-bit words they need >= 20..64 unwindings, which multiplies the paths of the digit loop.
//@ name=c17_k8_parse_r10_len3 prop=C17,C11 tier=thorough profile=k8 funcs="Uint::from_str_radix_vartime,radix_decode_str_digits (limb carry / push_limb / InputSize)" bound="u8 words, radix 10, Uint<1>: every 3-character ASCII string: values >= 2^8 are InputSize, never wrapped (255 / 256 boundary)" free_bits=21
parse_len!(c17_k8_parse_r10_len3, 1, 10, 3, 5);
//@ name=c17_k8_parse_r16_len3 prop=C17,C11 tier=quick profile=k8 funcs="Uint::from_str_radix_vartime,radix_decode_str_aligned_digits (push_limb / InputSize)" bound="u8 words, radix 16, Uint<1>: every 3-character ASCII string" free_bits=21 core=C11
parse_len!(c17_k8_parse_r16_len3, 1, 16, 3, 5);
//@ name=c17_k8_parse_r36_len2_u1 prop=C17,C11,C16 tier=quick profile=k8 funcs="Uint::from_str_radix_vartime,radix_decode_str_digits" bound="u8 words, radix 36, Uint<1>: every 2-character ASCII string (35*36+35 > 255)" free_bits=14 core=C16
parse_len!(c17_k8_parse_r36_len2_u1, 1, 36, 2, 4);
//@ name=c17_k8_parse_r10_len3_u2 prop=C17,C11 tier=thorough profile=k8 funcs="Uint::from_str_radix_vartime,radix_decode_str_digits (two limbs: mac over existing limbs)" bound="u8 words, radix 10, Uint<2>: every 3-character ASCII string" free_bits=21
parse_len!(c17_k8_parse_r10_len3_u2, 2, 10, 3, 5);

// ---------------------------------------------------------------- encoder kernels (k8: all values)
macro_rules! encode_div {
    ($name:ident, $radix:expr) => {
        #[kani::proof]
        #[kani::unwind(12)]
        fn $name() {
            let x: Uint<1> = any_uint();
            let v = to_u64(&x) as u32;
            let params = RadixDivisionParams::for_radix($radix);
            let mut limbs = [x.as_limbs()[0]];
            const SZ: usize = 9; // >= encoded_size(1) for every radix on 8-bit words
            let size = params.encoded_size(1);
            assert!(size <= SZ);
            let mut out = [0u8; SZ];
            params.encode_limbs(&mut limbs, &mut out[..size]);
            // digit i (from the right) of the base-radix expansion, lowercase, zero padded
            let mut rest = v;
            let mut i = size;
            while i > 0 {
                i -= 1;
                let d = (rest % $radix) as u8;
                rest /= $radix;
                assert!(out[i] == if d < 10 { b'0' + d } else { b'a' + d - 10 });
            }
            assert!(rest == 0);
        }
    };
}
//@ name=c17_k8_encode_r10 prop=C17,C11 tier=quick profile=k8 funcs="RadixDivisionParams::for_radix,RadixDivisionParams::encode_limbs,RadixDivisionParams::encoded_size,div2by1" bound="u8 words, radix 10, 1 limb: every value: digits of the canonical expansion" free_bits=8
encode_div!(c17_k8_encode_r10, 10);
//@ name=c17_k8_encode_r3 prop=C17,C11 tier=quick profile=k8 funcs="RadixDivisionParams::for_radix,RadixDivisionParams::encode_limbs" bound="u8 words, radix 3, 1 limb: every value" free_bits=8
encode_div!(c17_k8_encode_r3, 3);
//@ name=c17_k8_encode_r36 prop=C17,C11 tier=quick profile=k8 funcs="RadixDivisionParams::for_radix,RadixDivisionParams::encode_limbs" bound="u8 words, radix 36, 1 limb: every value (letters)" free_bits=8
encode_div!(c17_k8_encode_r36, 36);
//@ name=c17_k8_encode_r7 prop=C17,C11 tier=thorough profile=k8 funcs="RadixDivisionParams::encode_limbs" bound="u8 words, radix 7, 1 limb: every value" free_bits=8
encode_div!(c17_k8_encode_r7, 7);

macro_rules! encode_shift {
    ($name:ident, $radix:expr, $bits:expr) => {
        #[kani::proof]
        #[kani::unwind(20)]
        fn $name() {
            let x: Uint<2> = any_uint();
            let v = to_u64(&x) as u32;
            let mut limbs = [x.as_limbs()[0], x.as_limbs()[1]];
            const SZ: usize = (16 + $bits - 1) / $bits;
            let mut out = [0u8; SZ];
            radix_encode_limbs_by_shifting($radix, &mut limbs, &mut out);
            let mut i = 0;
            while i < SZ {
                let d = ((v >> ($bits * (SZ - 1 - i))) & ($radix - 1)) as u8;
                assert!(out[i] == if d < 10 { b'0' + d } else { b'a' + d - 10 });
                i += 1;
            }
        }
    };
}
//@ name=c17_k8_encode_r16 prop=C17,C11 tier=quick profile=k8 funcs="radix_encode_limbs_by_shifting" bound="u8 words, radix 16, 2 limbs: every value" free_bits=16
encode_shift!(c17_k8_encode_r16, 16, 4);
//@ name=c17_k8_encode_r2 prop=C17,C11 tier=quick profile=k8 funcs="radix_encode_limbs_by_shifting" bound="u8 words, radix 2, 2 limbs: every value" free_bits=16
encode_shift!(c17_k8_encode_r2, 2, 1);
//@ name=c17_k8_encode_r32 prop=C17,C11 tier=quick profile=k8 funcs="radix_encode_limbs_by_shifting" bound="u8 words, radix 32 (5 bits per digit: digits straddle limb boundaries), 2 limbs: every value" free_bits=16
encode_shift!(c17_k8_encode_r32, 32, 5);

//@ name=c17_k8_parse_r10_len2 prop=C17,C11,C16 tier=quick profile=k8 funcs="Uint::from_str_radix_vartime,radix_decode_str,radix_preprocess_str,radix_decode_str_digits" bound="u8 words, radix 10, Uint<1>: every 2-character ASCII string" free_bits=14 core=C11,C16
parse_len!(c17_k8_parse_r10_len2, 1, 10, 2, 4);
//@ name=c17_k8_parse_r10_len1 prop=C17,C11 tier=quick profile=k8 funcs="Uint::from_str_radix_vartime,radix_decode_str,radix_preprocess_str,radix_decode_str_digits" bound="u8 words, radix 10, Uint<1>: every 1-character ASCII string ('+', '_', '0' alone)" free_bits=7
parse_len!(c17_k8_parse_r10_len1, 1, 10, 1, 4);
//@ name=c17_k8_parse_r16_len2 prop=C17,C11,C16 tier=quick profile=k8 funcs="Uint::from_str_radix_vartime,radix_decode_str_aligned_digits" bound="u8 words, radix 16, Uint<1>: every 2-character ASCII string" free_bits=14 core=C16
parse_len!(c17_k8_parse_r16_len2, 1, 16, 2, 4);
