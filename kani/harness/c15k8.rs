//! C15 — route pairs that need the 8-bit-word build.
use crate::__verif_common::*;
use crate::{Limb, NonZero, Reciprocal, Uint, Word};

//@ prop=C15,C02 tier=quick profile=k8 funcs="Reciprocal::new,Uint::div_rem_limb,Uint::div_rem_limb_with_reciprocal,Uint::rem_limb,Uint::rem_limb_with_reciprocal" bound="u8 words, Uint<2>, divisor shaped S(3): one-shot vs precomputed reciprocal give identical (q, r); shift field = leading zeros" free_bits=20
#[kani::proof]
#[kani::unwind(14)]
fn c15_reciprocal_precomputed_vs_oneshot() {
    let n: Uint<2> = any_uint();
    let d: Word = shaped_word(4);
    kani::assume(d != 0);
    let dz = NonZero::new(Limb(d)).unwrap();
    let rec = Reciprocal::new(dz);
    assert!(rec.shift() == d.leading_zeros());
    let (q1, r1) = n.div_rem_limb(dz);
    let (q2, r2) = n.div_rem_limb_with_reciprocal(&rec);
    assert!(q1 == q2 && r1 == r2);
    assert!(n.rem_limb(dz) == r1 && n.rem_limb_with_reciprocal(&rec) == r1);
    assert!(r1.0 < d);
}
