//! C02 / C07 / C15 — `Uint::rem_wide_vartime` (double-width dividend) and its users
//! `Uint::mul_mod_vartime` / `MulMod`, k8.  Constructive shapes (n := q*p + r built in u64) so that the
//! Knuth add-back inputs of the wide loop lie inside the shape; division-free oracle.
use crate::__verif_common::*;
use crate::{Limb, MulMod, NonZero, Uint, Word};

macro_rules! rem_wide {
    ($name:ident, $L:expr, $T:ty, $p:expr, $kq:expr, $kr:expr) => {
        #[kani::proof]
        #[kani::unwind(10)]
        fn $name() {
            const L: usize = $L;
            let p: Uint<L> = $p;
            let pv = to_u64(&p);
            kani::assume(pv != 0);
            // quotient: $kq-bit value whose 2 low bits are free and whose higher bits are all equal
            let qraw: u32 = kani::any();
            let qhi = qraw >> 2;
            kani::assume(qraw >> $kq == 0 && (qhi == 0 || qhi == ((1u32 << $kq) - 1) >> 2));
            let rsel: bool = kani::any();
            let rk: u64 = (kani::any::<u8>() as u64) & ((1u64 << $kr) - 1);
            kani::assume(rk < pv);
            let rh = if rsel { pv - 1 - rk } else { rk };
            let nv: $T = (qraw as $T) * (pv as $T) + rh as $T;
            kani::assume(16 * L as u32 >= <$T>::BITS || nv >> (16 * L as u32 % <$T>::BITS) == 0);
            let lo: Uint<L> = from_u128((nv & (((1 as $T) << (8 * L as u32)) - 1)) as u128);
            let hi: Uint<L> = from_u128((nv >> (8 * L as u32)) as u128);
            let pz = NonZero::new(p).unwrap();
            let r = Uint::<L>::rem_wide_vartime((lo, hi), &pz);
            assert!(to_u64(&r) == rh);
            kani::cover!(rh == pv - 1 && qraw > 3);
            kani::cover!(rh == 0 && qraw > 3);
            kani::cover!(qraw == 0);
            kani::cover!(to_u64(&hi) != 0);
        }
    };
}
//@ name=c02_k8_rem_wide_3_d3 prop=C02,C07,C15,C11 tier=quick profile=k8 funcs="Uint::rem_wide_vartime,div3by2" bound="u8 words, Uint<3> pair by a 3-limb divisor p=[S(1),S(1),free]: n=q*p+r, q a 24-bit value with 2 free low bits and all-equal high bits, r within 2 of 0 or p" free_bits=15 core=C15,C07
rem_wide!(c02_k8_rem_wide_3_d3, 3, u64, Uint::<3>::new([Limb(shaped_word(1)), Limb(shaped_word(1)), Limb(kani::any())]), 24, 1);
//@ name=c02_k8_rem_wide_3_d2 prop=C02,C07,C15,C11 tier=quick profile=k8 funcs="Uint::rem_wide_vartime,div3by2" bound="u8 words, Uint<3> pair by a 2-limb divisor p=[S(2),free,0]: n=q*p+r, q a 30-bit value with 2 free low bits and all-equal high bits, r within 4 of 0 or p" free_bits=18
rem_wide!(c02_k8_rem_wide_3_d2, 3, u64, Uint::<3>::new([Limb(shaped_word(2)), Limb(kani::any()), Limb(0)]), 30, 2);
//@ name=c02_k8_rem_wide_2_d2 prop=C02,C07,C15,C11 tier=quick profile=k8 funcs="Uint::rem_wide_vartime,div3by2" bound="u8 words, Uint<2> pair by a 2-limb divisor p=[S(3),free]: n=q*p+r, q a 16-bit value with 2 free low bits, r within 8 of 0 or p" free_bits=18
rem_wide!(c02_k8_rem_wide_2_d2, 2, u64, Uint::<2>::new([Limb(shaped_word(3)), Limb(kani::any())]), 16, 3);
//@ name=c02_k8_rem_wide_2_d1 prop=C02,C07,C15,C11 tier=quick profile=k8 funcs="Uint::rem_wide_vartime,rem_limb_with_reciprocal_wide" bound="u8 words, Uint<2> pair by a single-limb-valued divisor p=[free,0]: n=q*p+r, q a 24-bit value with 2 free low bits, r within 8 of 0 or p" free_bits=16
rem_wide!(c02_k8_rem_wide_2_d1, 2, u64, Uint::<2>::new([Limb(kani::any()), Limb(0)]), 24, 3);

//@ prop=C07,C15,C11 tier=quick profile=k8 funcs="Uint::mul_mod_vartime,MulMod for Uint,Uint::mul_mod" bound="u8 words, Uint<3>: odd p=[S(1)|1,S(1),S(1)^sign], a limbs S(1), b=[x,y,x] with x,y S(1), < p: mul_mod_vartime = MulMod = rem_wide_vartime(split_mul) and q*p + r == a*b" free_bits=16 core=C15
#[kani::proof]
#[kani::unwind(10)]
fn c07_k8_mul_mod_vartime_3() {
    let p = Uint::<3>::new([Limb(shaped_word(1) | 1), Limb(shaped_word(1)), Limb(shaped_signed_top(1))]);
    let a: Uint<3> = shaped(1);
    let (x, y): (Word, Word) = (shaped_word(1), shaped_word(1));
    let b = Uint::<3>::new([Limb(x), Limb(y), Limb(x)]);
    let (pv, av, bv) = (to_u64(&p), to_u64(&a), to_u64(&b));
    kani::assume(av < pv && bv < pv);
    let pz = NonZero::new(p).unwrap();
    let r = a.mul_mod_vartime(&b, &pz);
    let rv = to_u64(&r);
    let q: u64 = kani::any();
    kani::assume(q <= pv && q * pv <= av * bv && av * bv < (q + 1) * pv);
    assert!(rv < pv && q * pv + rv == av * bv);
    assert!(to_u64(&MulMod::mul_mod(&a, &b, &p)) == rv);
    assert!(to_u64(&Uint::<3>::rem_wide_vartime(a.split_mul(&b), &pz)) == rv);
    kani::cover!(pv < 0x10000);
    kani::cover!(pv > 0xff0000 && av > 0xff0000 && bv > 0xff0000);
}
