//! C10 — inversion modulo 2^k (k8: all values, every k).  The Bernstein-Yang divsteps core is out
//! of reach (DESIGN.md C10) and not claimed.
use crate::__verif_common::*;
use crate::{Limb, Uint, Word};

macro_rules! inv_mod2k {
    ($name:ident, $L:expr, $U:expr, $a:expr) => {
        #[kani::proof]
        #[kani::unwind($U)]
        fn $name() {
            const L: usize = $L;
            let bits = Uint::<L>::BITS;
            let a: Uint<L> = $a;
            let k: u32 = kani::any();
            kani::assume(k <= bits);
            let av = to_u64(&a) as u32;
            let odd = av & 1 == 1;
            let r = a.inv_mod2k(k);
            let rv = a.inv_mod2k_vartime(k);
            let rf = a.inv_mod2k_full_vartime(k);
            let want_some = k == 0 || odd;
            assert!(r.is_some().to_bool_vartime() == want_some);
            assert!(rv.is_some().to_bool_vartime() == want_some);
            assert!(rf.is_some() == want_some);
            if want_some {
                let x = r.unwrap_or(Uint::ZERO);
                let xv = to_u64(&x) as u32;
                let mask: u32 = if k == 32 { u32::MAX } else { (1u32 << k) - 1 };
                assert!(xv & !mask == 0); // x < 2^k
                assert!(av.wrapping_mul(xv) & mask == 1 & mask); // a*x = 1 (mod 2^k)
                assert!(rv.unwrap_or(Uint::ZERO) == x);
                assert!(rf.unwrap() == x);
            }
            kani::cover!(k == bits && odd);
            kani::cover!(k == 0 && !odd);
            kani::cover!(k == 1 && odd);
        }
    };
}
//@ name=c10_k8_inv_mod2k_1 prop=C10,C15,C11 tier=quick profile=k8 funcs="Uint::inv_mod2k,Uint::inv_mod2k_vartime,Uint::inv_mod2k_full_vartime" bound="u8 words, Uint<1>: every a, every k in 0..=8" free_bits=12 core=C15,C11
inv_mod2k!(c10_k8_inv_mod2k_1, 1, 20, any_uint());
//@ name=c10_k8_inv_mod2k_2 prop=C10,C15,C11 tier=quick profile=k8 funcs="Uint::inv_mod2k,Uint::inv_mod2k_vartime,Uint::inv_mod2k_full_vartime" bound="u8 words, Uint<2>: every a, every k in 0..=16" free_bits=21
inv_mod2k!(c10_k8_inv_mod2k_2, 2, 20, any_uint());
//@ name=c10_k8_inv_mod2k_3 prop=C10,C15,C11 tier=thorough profile=k8 funcs="Uint::inv_mod2k,Uint::inv_mod2k_vartime,Uint::inv_mod2k_full_vartime" bound="u8 words, Uint<3>: a = [free, S(2), S(2)], every k in 0..=24" free_bits=19
inv_mod2k!(c10_k8_inv_mod2k_3, 3, 28, Uint::new([Limb(kani::any()), Limb(shaped_word(2)), Limb(shaped_word(2))]));
