//! C04 (boxed part) — BoxedUint add/sub/neg incl. mixed precision and mixed operand types (k64, all values).
use crate::__verif_common::boxed::*;
use crate::__verif_common::*;
use crate::{BoxedUint, CheckedAdd, CheckedSub, Limb, Uint, Word, Wrapping, WrappingAdd, WrappingNeg, WrappingSub, U128, U64};

macro_rules! boxed_addsub {
    ($name:ident, $N:expr, $M:expr) => {
        #[kani::proof]
        #[kani::unwind(8)]
        fn $name() {
            const W: usize = if $N > $M { $N } else { $M };
            let a = any_boxed($N);
            let b = any_boxed($M);
            let cin: Word = kani::any();
            let aw: [Word; W] = bwords(&a);
            let bw: [Word; W] = bwords(&b);
            let (r, co) = a.adc(&b, Limb(cin));
            let (rr, rco) = ref_add(&aw, &bw, cin);
            assert!(r.nlimbs() == W && words_eq(&bwords::<W>(&r), &rr) && co.0 == rco);
            let (d, bo) = a.sbb(&b, Limb(cin));
            let (rd, rbo) = ref_sub(&aw, &bw, cin >> 63);
            assert!(d.nlimbs() == W && words_eq(&bwords::<W>(&d), &rd));
            assert!(bo.0 == if rbo == 1 { Word::MAX } else { 0 });
            let (s0, c0) = ref_add(&aw, &bw, 0);
            let (d0, b0) = ref_sub(&aw, &bw, 0);
            let w = a.wrapping_add(&b);
            assert!(w.nlimbs() == W && words_eq(&bwords::<W>(&w), &s0));
            let w2 = a.wrapping_sub(&b);
            assert!(w2.nlimbs() == W && words_eq(&bwords::<W>(&w2), &d0));
            let ca = CheckedAdd::checked_add(&a, &b);
            assert!(bool::from(ca.is_some()) == (c0 == 0));
            let cs = CheckedSub::checked_sub(&a, &b);
            assert!(bool::from(cs.is_some()) == (b0 == 0));
            let w3 = WrappingAdd::wrapping_add(&a, &b);
            let w4 = WrappingSub::wrapping_sub(&a, &b);
            assert!(words_eq(&bwords::<W>(&w3), &s0) && words_eq(&bwords::<W>(&w4), &d0));
            kani::cover!(c0 == 1 && is_zero_words(&s0));
            kani::cover!(b0 == 1);
            kani::cover!(co.0 == 1 && cin > 1);
            core::mem::forget((a, b, r, d, w, w2, ca, cs, w3, w4));
        }
    };
}
//@ name=c04_boxed_addsub_2_2 prop=C04,C11,C15 tier=quick profile=k64 funcs="BoxedUint::adc,BoxedUint::sbb,BoxedUint::wrapping_add,BoxedUint::wrapping_sub,CheckedAdd,CheckedSub,WrappingAdd,WrappingSub,BoxedUint::fold_limbs" bound="BoxedUint 2+2 limbs, all values, all carry/borrow-in words" free_bits=320 core=C15
boxed_addsub!(c04_boxed_addsub_2_2, 2, 2);
//@ name=c04_boxed_addsub_3_1 prop=C04,C11,C15 tier=quick profile=k64 funcs="BoxedUint::adc,BoxedUint::sbb,BoxedUint::wrapping_add,BoxedUint::wrapping_sub,CheckedAdd,CheckedSub" bound="BoxedUint 3+1 limbs (different precision), all values, all carry/borrow-in words" free_bits=320
boxed_addsub!(c04_boxed_addsub_3_1, 3, 1);
//@ name=c04_boxed_addsub_1_3 prop=C04,C11,C15 tier=quick profile=k64 funcs="BoxedUint::adc,BoxedUint::sbb,BoxedUint::wrapping_add,BoxedUint::wrapping_sub,CheckedAdd,CheckedSub" bound="BoxedUint 1+3 limbs (receiver narrower), all values, all carry/borrow-in words" free_bits=320
boxed_addsub!(c04_boxed_addsub_1_3, 1, 3);
//@ name=c04_boxed_addsub_4_4 prop=C04,C11,C15 tier=thorough profile=k64 funcs="BoxedUint::adc,BoxedUint::sbb,BoxedUint::wrapping_add,BoxedUint::wrapping_sub,CheckedAdd,CheckedSub" bound="BoxedUint 4+4 limbs, all values" free_bits=576
boxed_addsub!(c04_boxed_addsub_4_4, 4, 4);
//@ name=c04_boxed_addsub_5_3 prop=C04,C11,C15 tier=thorough profile=k64 funcs="BoxedUint::adc,BoxedUint::sbb,BoxedUint::wrapping_add,BoxedUint::wrapping_sub,CheckedAdd,CheckedSub" bound="BoxedUint 5+3 limbs, all values" free_bits=576
boxed_addsub!(c04_boxed_addsub_5_3, 5, 3);

macro_rules! boxed_neg {
    ($name:ident, $N:expr) => {
        #[kani::proof]
        #[kani::unwind(8)]
        fn $name() {
            let a = any_boxed($N);
            let aw: [Word; $N] = bwords(&a);
            let zero = [0 as Word; $N];
            let (nref, _) = ref_sub(&zero, &aw, 0);
            let n = a.wrapping_neg();
            assert!(n.nlimbs() == $N && words_eq(&bwords::<$N>(&n), &nref));
            let n2 = WrappingNeg::wrapping_neg(&a);
            assert!(words_eq(&bwords::<$N>(&n2), &nref));
            let n3 = -Wrapping(a.clone());
            assert!(words_eq(&bwords::<$N>(&n3.0), &nref));
            kani::cover!($N == 1 || (aw[0] == 1 && aw[1] == Word::MAX)); // all-ones limb above the lowest non-zero limb
            kani::cover!(is_zero_words(&aw));
            core::mem::forget((a, n, n2, n3));
        }
    };
}
//@ name=c04_boxed_neg_1 prop=C04,C11 tier=quick profile=k64 funcs="BoxedUint::wrapping_neg,WrappingNeg,Neg for Wrapping<BoxedUint>" bound="BoxedUint 1 limb, all values" free_bits=64
boxed_neg!(c04_boxed_neg_1, 1);
//@ name=c04_boxed_neg_3 prop=C04,C11 tier=quick profile=k64 funcs="BoxedUint::wrapping_neg,WrappingNeg,Neg for Wrapping<BoxedUint>" bound="BoxedUint 3 limbs, all values" free_bits=192
boxed_neg!(c04_boxed_neg_3, 3);
//@ name=c04_boxed_neg_4 prop=C04,C11 tier=quick profile=k64 funcs="BoxedUint::wrapping_neg,WrappingNeg,Neg for Wrapping<BoxedUint>" bound="BoxedUint 4 limbs, all values" free_bits=256
boxed_neg!(c04_boxed_neg_4, 4);

//@ prop=C04,C11 tier=quick profile=k64 funcs="Add/Sub<&BoxedUint> for BoxedUint,AddAssign,SubAssign,Add/Sub<Uint> for BoxedUint,Add/Sub<u64>,Add/Sub<u128>,adc_assign,sbb_assign,Wrapping<BoxedUint> += -=" bound="BoxedUint 2 limbs with BoxedUint(2), Uint<2>, Uint<1>, u64, u128 right-hand sides: all values whose result is in range: exact and panic-free" free_bits=384
#[kani::proof]
#[kani::unwind(8)]
fn c04_boxed_ops_in_range() {
    let a = any_boxed(2);
    let b = any_boxed(2);
    let aw: [Word; 2] = bwords(&a);
    let bw: [Word; 2] = bwords(&b);
    let (x, y) = ((aw[0] as u128) | ((aw[1] as u128) << 64), (bw[0] as u128) | ((bw[1] as u128) << 64));
    let val = |t: &BoxedUint| (bword(t, 0) as u128) | ((bword(t, 1) as u128) << 64);
    let yu = U128::from_u128(y);
    let small: u64 = bw[0];
    if x.checked_add(y).is_some() {
        let s = &a + &b;
        assert!(val(&s) == x + y && s.nlimbs() == 2);
        let mut t = a.clone();
        t += &b;
        assert!(val(&t) == x + y);
        let s2 = &a + yu;
        assert!(val(&s2) == x + y && s2.nlimbs() == 2);
        let mut t2 = a.clone();
        t2 += &yu;
        assert!(val(&t2) == x + y);
        let s3 = &a + y;
        assert!(val(&s3) == x + y);
        core::mem::forget((s, t, s2, t2, s3));
    }
    if x.checked_add(small as u128).is_some() {
        let s = &a + small;
        assert!(val(&s) == x + small as u128);
        let s2 = &a + U64::from_u64(small);
        assert!(val(&s2) == x + small as u128);
        let mut t = a.clone();
        t += small;
        assert!(val(&t) == x + small as u128);
        core::mem::forget((s, s2, t));
    }
    if x >= y {
        let d = &a - &b;
        assert!(val(&d) == x - y && d.nlimbs() == 2);
        let mut t = a.clone();
        t -= &b;
        assert!(val(&t) == x - y);
        let d2 = &a - yu;
        assert!(val(&d2) == x - y);
        let d3 = &a - y;
        assert!(val(&d3) == x - y);
        core::mem::forget((d, t, d2, d3));
    }
    if x >= small as u128 {
        let d = &a - small;
        assert!(val(&d) == x - small as u128);
        core::mem::forget(d);
    }
    // wrapping wrappers never panic
    let mut w = Wrapping(a.clone());
    w += Wrapping(b.clone());
    assert!(val(&w.0) == x.wrapping_add(y));
    let mut w2 = Wrapping(a.clone());
    w2 -= &Wrapping(b.clone());
    assert!(val(&w2.0) == x.wrapping_sub(y));
    // in-place primitives
    let mut p = a.clone();
    let c = p.adc_assign(&b, Limb::ZERO);
    assert!(val(&p) == x.wrapping_add(y) && (c.0 == 1) == x.checked_add(y).is_none() && c.0 <= 1);
    let mut q = a.clone();
    let bo = q.sbb_assign(&b, Limb::ZERO);
    assert!(val(&q) == x.wrapping_sub(y) && (bo.0 != 0) == (x < y));
    core::mem::forget((a, b, w, w2, p, q));
}

//@ prop=C04,C11 tier=quick profile=k64 funcs="AddAssign<&BoxedUint> for BoxedUint" bound="BoxedUint 2+2 limbs, all values with a+b >= 2^128: += must panic" free_bits=256 must_panic=1
#[kani::proof]
#[kani::unwind(8)]
fn c04_boxed_add_assign_panics_on_overflow() {
    let mut a = any_boxed(2);
    let b = any_boxed(2);
    let (x, y) = ((bword(&a, 0) as u128) | ((bword(&a, 1) as u128) << 64), (bword(&b, 0) as u128) | ((bword(&b, 1) as u128) << 64));
    kani::assume(x.checked_add(y).is_none());
    a += &b;
    must_have_panicked();
}

//@ prop=C04,C11 tier=quick profile=k64 funcs="Sub<&BoxedUint> for &BoxedUint" bound="BoxedUint 2+2 limbs, all values with a<b: - must panic" free_bits=256 must_panic=1
#[kani::proof]
#[kani::unwind(8)]
fn c04_boxed_sub_panics_on_underflow() {
    let a = any_boxed(2);
    let b = any_boxed(2);
    let (x, y) = ((bword(&a, 0) as u128) | ((bword(&a, 1) as u128) << 64), (bword(&b, 0) as u128) | ((bword(&b, 1) as u128) << 64));
    kani::assume(x < y);
    let _ = &a - &b;
    must_have_panicked();
}

// Release semantics (k64r: debug assertions off, wrapping arithmetic): a right-hand side wider than
// the receiver must not be silently truncated by the assigning forms ("Panics if `rhs` has a larger
// precision than `self`").
//@ prop=C04,C11 tier=quick profile=k64r funcs="BoxedUint::adc_assign,BoxedUint::sbb_assign,AddAssign<Uint<2>> for BoxedUint" bound="release profile: receiver 1 limb, right-hand side 2 limbs with a non-zero high limb, all values: must panic as documented" free_bits=192 must_panic=1 expect=finding:boxed_assign_wider_rhs_release
#[kani::proof]
#[kani::unwind(8)]
fn c04_boxed_assign_wider_rhs_release() {
    let mut a = any_boxed(1);
    let b = any_boxed(2);
    kani::assume(bword(&b, 1) != 0);
    let which: bool = kani::any();
    if which {
        let _ = a.adc_assign(&b, Limb::ZERO);
    } else {
        let _ = a.sbb_assign(&b, Limb::ZERO);
    }
    must_have_panicked();
}
