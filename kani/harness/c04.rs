//! C04 — add/sub/neg exact with exact carry/overflow (k64: real 64-bit words, all values).
use crate::__verif_common::*;
use crate::{
    Checked, CheckedAdd, CheckedSub, ConstChoice, Limb, Uint, WideWord, Word, Wrapping, WrappingAdd, WrappingNeg,
    WrappingSub,
};

// ---------------------------------------------------------------- primitives / Limb

//@ prop=C04,C11 tier=quick profile=k64 funcs="primitives::adc,primitives::overflowing_add,primitives::sbb,Limb::adc,Limb::sbb,Limb::overflowing_add" bound="one word each, all values of lhs, rhs and carry/borrow-in word" free_bits=192
#[kani::proof]
fn c04_prim_adc_sbb_all_words() {
    let a: Word = kani::any();
    let b: Word = kani::any();
    let c: Word = kani::any();
    // adc: exact a + b + c, carry in {0,1,2}
    let (r, co) = crate::primitives::adc(a, b, c);
    let t: u128 = (a as u128) + (b as u128) + (c as u128);
    assert!(r == t as Word);
    assert!(co as u128 == t >> Word::BITS);
    let (lr, lco) = Limb(a).adc(Limb(b), Limb(c));
    assert!(lr.0 == r && lco.0 == co);
    kani::cover!(co == 2);
    // overflowing_add
    let (r2, c2) = crate::primitives::overflowing_add(a, b);
    assert!(r2 == a.wrapping_add(b) && c2 == (a.checked_add(b).is_none() as Word));
    let (lr2, lc2) = Limb(a).overflowing_add(Limb(b));
    assert!(lr2.0 == r2 && lc2.0 == c2);
    // sbb: borrow-in is the top bit of the incoming mask; borrow-out is 0 or all-ones
    let bin = c >> (Word::BITS - 1);
    let (d, bo) = crate::primitives::sbb(a, b, c);
    let t2: i128 = (a as i128) - (b as i128) - (bin as i128);
    assert!(d == t2 as Word);
    assert!(bo == if t2 < 0 { Word::MAX } else { 0 });
    let (ld, lbo) = Limb(a).sbb(Limb(b), Limb(c));
    assert!(ld.0 == d && lbo.0 == bo);
    kani::cover!(bo == Word::MAX && a == b);
}

//@ prop=C04,C03,C11 tier=thorough profile=k64 funcs="primitives::mac" bound="one word each, all values of a,b,c,carry; the 64x64->128 hardware product is shared between code and oracle (the carry logic around it is what is decided)" free_bits=256
#[kani::proof]
fn c04_prim_mac_all_words() {
    let a: Word = kani::any();
    let b: Word = kani::any();
    let c: Word = kani::any();
    let k: Word = kani::any();
    let (lo, hi) = crate::primitives::mac(a, b, c, k);
    // a + b*c + k < 2^128 always; compare as (hi,lo)
    let p: u128 = (b as u128) * (c as u128);
    let (s1, o1) = p.overflowing_add(a as u128);
    let (s2, o2) = s1.overflowing_add(k as u128);
    assert!(!o1 && !o2);
    assert!(lo == s2 as Word && hi == (s2 >> 64) as Word);
    kani::cover!(hi == Word::MAX);
}

//@ prop=C04,C03,C11 tier=quick profile=k64 funcs="primitives::mac" bound="all a,carry words; multiplier and multiplicand shaped S(5) (values within 32 of 0 or 2^64): carries out of the low word and into the high word for every addend" free_bits=140
#[kani::proof]
fn c04_prim_mac_shaped_b() {
    let a: Word = kani::any();
    let b: Word = shaped_word(5);
    let c: Word = shaped_word(5);
    let k: Word = kani::any();
    let (lo, hi) = crate::primitives::mac(a, b, c, k);
    let p: u128 = (b as u128) * (c as u128);
    let (s1, o1) = p.overflowing_add(a as u128);
    let (s2, o2) = s1.overflowing_add(k as u128);
    assert!(!o1 && !o2);
    assert!(lo == s2 as Word && hi == (s2 >> 64) as Word);
    kani::cover!(hi == Word::MAX);
    kani::cover!(b == Word::MAX && c == Word::MAX && a == Word::MAX && k == Word::MAX);
}

//@ prop=C03,C11 tier=thorough profile=k64 funcs="primitives::mul_wide,primitives::mulhilo" bound="one word each, all values; hardware product shared with the oracle" free_bits=128
#[kani::proof]
fn c04_prim_mul_wide_all_words() {
    let b: Word = kani::any();
    let c: Word = kani::any();
    let p: u128 = (b as u128) * (c as u128);
    let (mlo, mhi) = crate::primitives::mul_wide(b, c);
    assert!(mlo == p as Word && mhi == (p >> 64) as Word);
    let (hhi, hlo) = crate::primitives::mulhilo(b, c);
    assert!(hlo == p as Word && hhi == (p >> 64) as Word);
}

//@ prop=C04,C11 tier=quick profile=k64 funcs="primitives::addhilo" bound="all (hi,lo) pairs whose sum fits 128 bits" free_bits=256
#[kani::proof]
fn c04_prim_addhilo() {
    let xh: Word = kani::any();
    let xl: Word = kani::any();
    let yh: Word = kani::any();
    let yl: Word = kani::any();
    let x = ((xh as u128) << 64) | xl as u128;
    let y = ((yh as u128) << 64) | yl as u128;
    kani::assume(x.checked_add(y).is_some());
    let (h, l) = crate::primitives::addhilo(xh, xl, yh, yl);
    assert!((((h as u128) << 64) | l as u128) == x + y);
}

//@ prop=C04,C11 tier=quick profile=k64 funcs="Limb::saturating_add,Limb::wrapping_add,Limb::checked_add,Limb::saturating_sub,Limb::wrapping_sub,Limb::checked_sub,Limb::wrapping_neg,Wrapping<Limb>,Checked<Limb>" bound="Limb, all a,b" free_bits=128
#[kani::proof]
fn c04_limb_forms() {
    let a: Word = kani::any();
    let b: Word = kani::any();
    let (la, lb) = (Limb(a), Limb(b));
    assert!(la.saturating_add(lb).0 == a.saturating_add(b));
    assert!(la.wrapping_add(lb).0 == a.wrapping_add(b));
    let ca = CheckedAdd::checked_add(&la, &lb);
    assert!(bool::from(ca.is_some()) == a.checked_add(b).is_some());
    if a.checked_add(b).is_some() {
        assert!(ca.unwrap().0 == a + b);
    }
    assert!(la.saturating_sub(lb).0 == a.saturating_sub(b));
    assert!(la.wrapping_sub(lb).0 == a.wrapping_sub(b));
    let cs = CheckedSub::checked_sub(&la, &lb);
    assert!(bool::from(cs.is_some()) == (a >= b));
    if a >= b {
        assert!(cs.unwrap().0 == a - b);
    }
    assert!(la.wrapping_neg().0 == a.wrapping_neg());
    assert!(WrappingNeg::wrapping_neg(&la).0 == a.wrapping_neg());
    assert!(WrappingAdd::wrapping_add(&la, &lb).0 == a.wrapping_add(b));
    assert!(WrappingSub::wrapping_sub(&la, &lb).0 == a.wrapping_sub(b));
    // wrappers
    let mut w = Wrapping(la);
    w += Wrapping(lb);
    assert!(w.0.0 == a.wrapping_add(b));
    w -= &Wrapping(lb);
    assert!(w.0.0 == a);
    assert!((Wrapping(la) - Wrapping(lb)).0.0 == a.wrapping_sub(b));
    assert!((-Wrapping(la)).0.0 == a.wrapping_neg());
    let mut c = Checked::new(la);
    c += Checked::new(lb);
    assert!(bool::from(c.0.is_some()) == a.checked_add(b).is_some());
    // sticky none: once overflowed, a further subtraction does not resurrect the value
    let c2 = c - Checked::new(lb);
    assert!(bool::from(c2.0.is_some()) == a.checked_add(b).is_some());
    let d = Checked::new(la) - Checked::new(lb);
    assert!(bool::from(d.0.is_some()) == (a >= b));
    kani::cover!(a.checked_add(b).is_none());
    kani::cover!(a < b);
}

//@ prop=C04,C11 tier=quick profile=k64 funcs="Limb::add(op),Limb::sub(op)" bound="Limb, all a,b with a+b / a-b in range: operators must not panic and be exact" free_bits=128
#[kani::proof]
fn c04_limb_ops_in_range() {
    let a: Word = kani::any();
    let b: Word = kani::any();
    if a.checked_add(b).is_some() {
        assert!((Limb(a) + Limb(b)).0 == a + b);
    }
    if a >= b {
        assert!((Limb(a) - Limb(b)).0 == a - b);
        assert!((Limb(a) - &Limb(b)).0 == a - b);
    }
}

//@ prop=C04,C11 tier=quick profile=k64 funcs="Limb::add(op)" bound="Limb, all a,b with a+b >= 2^64: operator must panic" free_bits=128 must_panic=1
#[kani::proof]
fn c04_limb_add_op_panics_on_overflow() {
    let a: Word = kani::any();
    let b: Word = kani::any();
    kani::assume(a.checked_add(b).is_none());
    let _ = Limb(a) + Limb(b);
    crate::__verif_common::must_have_panicked();
}

//@ prop=C04,C11 tier=quick profile=k64 funcs="Limb::sub(op)" bound="Limb, all a<b: operator must panic" free_bits=128 must_panic=1
#[kani::proof]
fn c04_limb_sub_op_panics_on_underflow() {
    let a: Word = kani::any();
    let b: Word = kani::any();
    kani::assume(a < b);
    let _ = Limb(a) - Limb(b);
    crate::__verif_common::must_have_panicked();
}

// ---------------------------------------------------------------- Uint<L>

macro_rules! uint_addsub {
    ($name:ident, $L:expr) => {
        #[kani::proof]
        #[kani::unwind(10)]
        fn $name() {
            const L: usize = $L;
            let a: Uint<L> = any_uint();
            let b: Uint<L> = any_uint();
            let cin: Word = kani::any();
            let (aw, bw) = (words_of(&a), words_of(&b));
            // adc with an arbitrary carry-in word
            let (r, co) = a.adc(&b, Limb(cin));
            let (rr, rco) = ref_add(&aw, &bw, cin);
            assert!(words_eq(&words_of(&r), &rr));
            assert!(co.0 == rco);
            // sbb with an arbitrary borrow mask (top bit = borrow)
            let bin = cin >> (Word::BITS - 1);
            let (d, bo) = a.sbb(&b, Limb(cin));
            let (rd, rbo) = ref_sub(&aw, &bw, bin);
            assert!(words_eq(&words_of(&d), &rd));
            assert!(bo.0 == if rbo == 1 { Word::MAX } else { 0 });
            // derived forms
            let (s0, c0) = ref_add(&aw, &bw, 0);
            let (d0, b0) = ref_sub(&aw, &bw, 0);
            assert!(words_eq(&words_of(&a.wrapping_add(&b)), &s0));
            assert!(words_eq(&words_of(&WrappingAdd::wrapping_add(&a, &b)), &s0));
            assert!(words_eq(&words_of(&a.wrapping_sub(&b)), &d0));
            assert!(words_eq(&words_of(&WrappingSub::wrapping_sub(&a, &b)), &d0));
            let sat = a.saturating_add(&b);
            assert!(if c0 != 0 { sat == Uint::<L>::MAX } else { words_eq(&words_of(&sat), &s0) });
            let ssat = a.saturating_sub(&b);
            assert!(if b0 != 0 { ssat == Uint::<L>::ZERO } else { words_eq(&words_of(&ssat), &d0) });
            let ca = CheckedAdd::checked_add(&a, &b);
            assert!(bool::from(ca.is_some()) == (c0 == 0));
            if c0 == 0 {
                assert!(words_eq(&words_of(&ca.unwrap()), &s0));
            }
            let cs = CheckedSub::checked_sub(&a, &b);
            assert!(bool::from(cs.is_some()) == (b0 == 0));
            if b0 == 0 {
                assert!(words_eq(&words_of(&cs.unwrap()), &d0));
            }
            // wrappers
            let mut w = Wrapping(a);
            w += Wrapping(b);
            assert!(words_eq(&words_of(&w.0), &s0));
            let mut w2 = Wrapping(a);
            w2 -= &Wrapping(b);
            assert!(words_eq(&words_of(&w2.0), &d0));
            assert!(words_eq(&words_of(&(Wrapping(a) + Wrapping(b)).0), &s0));
            assert!(words_eq(&words_of(&(Wrapping(a) - &Wrapping(b)).0), &d0));
            let mut ch = Checked::new(a);
            ch += Checked::new(b);
            assert!(bool::from(ch.0.is_some()) == (c0 == 0));
            let ch2 = ch - Checked::new(b); // sticky
            assert!(bool::from(ch2.0.is_some()) == (c0 == 0));
            if c0 == 0 {
                assert!(ch2.0.unwrap() == a);
            }
            let mut ch3 = Checked::new(a);
            ch3 -= &Checked::new(b);
            assert!(bool::from(ch3.0.is_some()) == (b0 == 0));
            kani::cover!(c0 == 1 && is_zero_words(&s0)); // result exactly 2^BITS
            kani::cover!(co.0 == 1 && cin > 1);
            kani::cover!(b0 == 1);
        }
    };
}

//@ name=c04_uint1_addsub prop=C04,C11 tier=quick profile=k64 funcs="Uint::adc,Uint::sbb,Uint::wrapping_add,Uint::wrapping_sub,Uint::saturating_add,Uint::saturating_sub,CheckedAdd,CheckedSub,WrappingAdd,WrappingSub,Wrapping<Uint>,Checked<Uint>" bound="Uint<1>, all a,b, all carry/borrow-in words" free_bits=192
uint_addsub!(c04_uint1_addsub, 1);
//@ name=c04_uint2_addsub prop=C04,C11 tier=quick profile=k64 funcs="Uint::adc,Uint::sbb,Uint::wrapping_add,Uint::wrapping_sub,Uint::saturating_add,Uint::saturating_sub,CheckedAdd,CheckedSub,Wrapping<Uint>,Checked<Uint>" bound="Uint<2>, all a,b, all carry/borrow-in words" free_bits=320 core=C11
uint_addsub!(c04_uint2_addsub, 2);
//@ name=c04_uint3_addsub prop=C04,C11 tier=quick profile=k64 funcs="Uint::adc,Uint::sbb,Uint::wrapping_add,Uint::wrapping_sub,Uint::saturating_add,Uint::saturating_sub,CheckedAdd,CheckedSub,Wrapping<Uint>,Checked<Uint>" bound="Uint<3>, all a,b, all carry/borrow-in words" free_bits=448
uint_addsub!(c04_uint3_addsub, 3);
//@ name=c04_uint4_addsub prop=C04,C11 tier=quick profile=k64 funcs="Uint::adc,Uint::sbb,Uint::wrapping_add,Uint::wrapping_sub,Uint::saturating_add,Uint::saturating_sub,CheckedAdd,CheckedSub,Wrapping<Uint>,Checked<Uint>" bound="Uint<4>, all a,b, all carry/borrow-in words" free_bits=576
uint_addsub!(c04_uint4_addsub, 4);
//@ name=c04_uint6_addsub prop=C04,C11 tier=thorough profile=k64 funcs="Uint::adc,Uint::sbb,Uint::wrapping_add,Uint::wrapping_sub,Uint::saturating_add,Uint::saturating_sub,CheckedAdd,CheckedSub,Wrapping<Uint>,Checked<Uint>" bound="Uint<6>, all a,b, all carry/borrow-in words" free_bits=832
uint_addsub!(c04_uint6_addsub, 6);
//@ name=c04_uint8_addsub prop=C04,C11 tier=thorough profile=k64 funcs="Uint::adc,Uint::sbb,Uint::wrapping_add,Uint::wrapping_sub,Uint::saturating_add,Uint::saturating_sub,CheckedAdd,CheckedSub,Wrapping<Uint>,Checked<Uint>" bound="Uint<8>, all a,b, all carry/borrow-in words" free_bits=1088
uint_addsub!(c04_uint8_addsub, 8);

//@ prop=C04 tier=quick profile=k64 funcs="Uint::adc" bound="Uint<2>, all a,b,carry-in vs native u128 arithmetic" free_bits=320
#[kani::proof]
#[kani::unwind(3)]
fn c04_uint2_adc_vs_u128() {
    let a: Uint<2> = any_uint();
    let b: Uint<2> = any_uint();
    let c: u64 = kani::any();
    let (r, co) = a.adc(&b, Limb(c));
    let (s1, o1) = to_u128(&a).overflowing_add(to_u128(&b));
    let (s2, o2) = s1.overflowing_add(c as u128);
    assert!(to_u128(&r) == s2);
    assert!(co.0 == (o1 as u64) + (o2 as u64));
    let (d, bo) = a.sbb(&b, Limb::ZERO);
    assert!(to_u128(&d) == to_u128(&a).wrapping_sub(to_u128(&b)));
    assert!((bo.0 != 0) == (to_u128(&a) < to_u128(&b)));
    kani::cover!(co.0 == 1 && c > 1);
    kani::cover!(co.0 == 0);
}

macro_rules! uint_neg {
    ($name:ident, $L:expr) => {
        #[kani::proof]
        #[kani::unwind(10)]
        fn $name() {
            const L: usize = $L;
            let a: Uint<L> = any_uint();
            let aw = words_of(&a);
            let zero = [0 as Word; L];
            let (nref, _) = ref_sub(&zero, &aw, 0);
            assert!(words_eq(&words_of(&a.wrapping_neg()), &nref));
            assert!(words_eq(&words_of(&WrappingNeg::wrapping_neg(&a)), &nref));
            let (n, carry) = a.carrying_neg();
            assert!(words_eq(&words_of(&n), &nref));
            assert!(carry.to_bool_vartime() == is_zero_words(&aw));
            let ch: bool = kani::any();
            let r = a.wrapping_neg_if(ConstChoice::from_word_lsb(ch as Word));
            assert!(words_eq(&words_of(&r), if ch { &nref } else { &aw }));
            assert!(words_eq(&words_of(&(-Wrapping(a)).0), &nref));
            kani::cover!(is_zero_words(&aw));
            kani::cover!(ch && aw[0] == 0 && (L == 1 || !is_zero_words(&aw))); // borrow ripples past limb 0
        }
    };
}
//@ name=c04_uint1_neg prop=C04,C11 tier=quick profile=k64 funcs="Uint::wrapping_neg,Uint::carrying_neg,Uint::wrapping_neg_if,WrappingNeg,Neg for Wrapping" bound="Uint<1>, all values" free_bits=65
uint_neg!(c04_uint1_neg, 1);
//@ name=c04_uint3_neg prop=C04,C11 tier=quick profile=k64 funcs="Uint::wrapping_neg,Uint::carrying_neg,Uint::wrapping_neg_if,WrappingNeg,Neg for Wrapping" bound="Uint<3>, all values" free_bits=193
uint_neg!(c04_uint3_neg, 3);
//@ name=c04_uint4_neg prop=C04,C11 tier=quick profile=k64 funcs="Uint::wrapping_neg,Uint::carrying_neg,Uint::wrapping_neg_if,WrappingNeg,Neg for Wrapping" bound="Uint<4>, all values" free_bits=257
uint_neg!(c04_uint4_neg, 4);
//@ name=c04_uint8_neg prop=C04,C11 tier=thorough profile=k64 funcs="Uint::wrapping_neg,Uint::carrying_neg,Uint::wrapping_neg_if" bound="Uint<8>, all values" free_bits=513
uint_neg!(c04_uint8_neg, 8);

//@ prop=C04,C11 tier=quick profile=k64 funcs="Add for Uint,Sub for Uint,AddAssign,SubAssign" bound="Uint<2>, all a,b in range: operators exact and panic-free" free_bits=256
#[kani::proof]
#[kani::unwind(4)]
fn c04_uint2_ops_in_range() {
    let a: Uint<2> = any_uint();
    let b: Uint<2> = any_uint();
    let (x, y) = (to_u128(&a), to_u128(&b));
    if x.checked_add(y).is_some() {
        assert!(to_u128(&(a + b)) == x + y);
        assert!(to_u128(&(a + &b)) == x + y);
        let mut t = a;
        t += b;
        assert!(to_u128(&t) == x + y);
        let mut t2 = a;
        t2 += &b;
        assert!(to_u128(&t2) == x + y);
    }
    if x >= y {
        assert!(to_u128(&(a - b)) == x - y);
        assert!(to_u128(&(a - &b)) == x - y);
        let mut t = a;
        t -= b;
        assert!(to_u128(&t) == x - y);
        let mut t2 = a;
        t2 -= &b;
        assert!(to_u128(&t2) == x - y);
    }
}

//@ prop=C04,C11 tier=quick profile=k64 funcs="Add for Uint" bound="Uint<2>, all a,b with a+b >= 2^128: operator must panic" free_bits=256 must_panic=1
#[kani::proof]
#[kani::unwind(4)]
fn c04_uint2_add_op_panics_on_overflow() {
    let a: Uint<2> = any_uint();
    let b: Uint<2> = any_uint();
    kani::assume(to_u128(&a).checked_add(to_u128(&b)).is_none());
    let _ = a + b;
    must_have_panicked();
}

//@ prop=C04,C11 tier=quick profile=k64 funcs="Sub for Uint" bound="Uint<2>, all a<b: operator must panic" free_bits=256 must_panic=1
#[kani::proof]
#[kani::unwind(4)]
fn c04_uint2_sub_op_panics_on_underflow() {
    let a: Uint<2> = any_uint();
    let b: Uint<2> = any_uint();
    kani::assume(to_u128(&a) < to_u128(&b));
    let _ = a - &b;
    must_have_panicked();
}
