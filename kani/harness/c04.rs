//! C04 — add/sub/neg exact with exact carry/overflow (K64, all values).
use crate::{Limb, Uint, U128, U64};

fn any_uint<const L: usize>() -> Uint<L> {
    let mut limbs = [Limb::ZERO; L];
    let mut i = 0;
    while i < L {
        limbs[i] = Limb(kani::any());
        i += 1;
    }
    Uint::new(limbs)
}

fn u128_of(x: &Uint<2>) -> u128 {
    let w = x.as_words();
    (w[0] as u128) | ((w[1] as u128) << 64)
}

//@ prop=C04 tier=quick profile=k64 funcs="Uint::adc,Limb::adc,primitives::adc" bound="Uint<2>, u64 words, all a,b, all carry-in words" free_bits=320
#[kani::proof]
#[kani::unwind(3)]
fn c04_uint2_adc_vs_u128() {
    let a: Uint<2> = any_uint();
    let b: Uint<2> = any_uint();
    let c: u64 = kani::any();
    let (r, co) = a.adc(&b, Limb(c));
    // exact: a + b + c = r + co * 2^128, computed in two u128 halves
    let (s1, o1) = u128_of(&a).overflowing_add(u128_of(&b));
    let (s2, o2) = s1.overflowing_add(c as u128);
    assert!(u128_of(&r) == s2);
    assert!(co.0 == (o1 as u64) + (o2 as u64));
    kani::cover!(co.0 == 1 && c > 1);
    kani::cover!(co.0 == 0);
}
