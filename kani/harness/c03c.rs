//! (k8 part) C04 (and the C02/C03 "checked ... operator forms") — the `Checked<T>` wrapper: every
//! by-value / by-reference / assigning operator form is `none` exactly when an operand already
//! was `none` or the true result is out of range, for every combination of operand states.
use crate::__verif_common::*;
use crate::{Checked, Limb, Uint, Word};
use subtle::{Choice, CtOption};

fn mk<T>(v: T, some: bool) -> Checked<T> {
    Checked(CtOption::new(v, Choice::from(some as u8)))
}
fn st<T: Copy + Default + subtle::ConditionallySelectable>(c: &Checked<T>) -> (bool, T) {
    let s = bool::from(c.0.is_some());
    (s, c.0.unwrap_or(T::default()))
}

/// $op over all four reference forms; expected (some, value) given by $exp
macro_rules! four_forms {
    ($x:ident, $y:ident, $op:tt, $ok:expr, $want:expr, $eq:expr) => {{
        let r1 = $x $op $y;
        let r2 = $x $op &$y;
        let r3 = &$x $op $y;
        let r4 = &$x $op &$y;
        for r in [r1, r2, r3, r4] {
            let (s, v) = st(&r);
            assert!(s == $ok);
            if $ok {
                assert!($eq(v, $want));
            }
        }
    }};
}

//@ prop=C03,C02,C11 tier=quick profile=k8 funcs="Mul/Div (4 forms) for Checked<Limb>,MulAssign (2 forms) for Checked<Limb>,Mul/Div (4 forms) for Checked<Uint>" bound="u8 words: Checked<Limb> and Checked<Uint<2>> (limbs S(3)), every some/none state; Div none exactly for a zero divisor" free_bits=34
#[kani::proof]
#[kani::unwind(6)]
fn c03_k8_checked_muldiv_forms() {
    let (a, b): (Word, Word) = (kani::any(), kani::any());
    let (fa, fb): (bool, bool) = (kani::any(), kani::any());
    let x = mk(Limb(a), fa);
    let y = mk(Limb(b), fb);
    let p = (a as u32) * (b as u32);
    let mul_ok = fa && fb && p <= Word::MAX as u32;
    let eq = |v: Limb, w: u32| v.0 as u32 == w;
    four_forms!(x, y, *, mul_ok, p, eq);
    let mut z = x;
    z *= y;
    assert!(st(&z).0 == mul_ok && (!mul_ok || st(&z).1.0 as u32 == p));
    let mut z = x;
    z *= &y;
    assert!(st(&z).0 == mul_ok && (!mul_ok || st(&z).1.0 as u32 == p));
    // Uint<2>
    let ua: Uint<2> = shaped(3);
    let ub: Uint<2> = shaped(3);
    let ux = mk(ua, fa);
    let uy = mk(ub, fb);
    let up = to_u64(&ua) * to_u64(&ub);
    let umul_ok = fa && fb && up >> 16 == 0;
    let ueq = |v: Uint<2>, w: u64| to_u64(&v) == w;
    four_forms!(ux, uy, *, umul_ok, up, ueq);
    let div_ok = fa && fb && to_u64(&ub) != 0;
    // floor quotient without dividing: q*b <= a < (q+1)*b
    let q: u64 = kani::any();
    kani::assume(!div_ok || (q <= 0xffff && q * to_u64(&ub) <= to_u64(&ua) && to_u64(&ua) < (q + 1) * to_u64(&ub)));
    four_forms!(ux, uy, /, div_ok, q, ueq);
    kani::cover!(fa && !fb);
    kani::cover!(mul_ok && p > 1);
    kani::cover!(umul_ok && up > 1);
    kani::cover!(fa && fb && !div_ok);
    kani::cover!(div_ok && q > 1);
}
