//! Shared helpers for the injected harness modules (module `crate::__verif_common`).
//! Word-width generic: works in the 64-bit (k64) and the narrowed 8-bit (k8) build.
#![allow(dead_code)]
use crate::{Limb, Uint, WideWord, Word};

pub(crate) const WBITS: u32 = Word::BITS;

/// Every limb fully symbolic.
pub(crate) fn any_uint<const L: usize>() -> Uint<L> {
    let mut limbs = [Limb::ZERO; L];
    let mut i = 0;
    while i < L {
        limbs[i] = Limb(kani::any());
        i += 1;
    }
    Uint::new(limbs)
}

pub(crate) fn any_words<const L: usize>() -> [Word; L] {
    let mut w = [0 as Word; L];
    let mut i = 0;
    while i < L {
        w[i] = kani::any();
        i += 1;
    }
    w
}

pub(crate) fn words_of<const L: usize>(x: &Uint<L>) -> [Word; L] {
    let mut w = [0 as Word; L];
    let mut i = 0;
    while i < L {
        w[i] = x.as_limbs()[i].0;
        i += 1;
    }
    w
}

/// S(k): the k low bits of the word free, all higher bits tied to one more free bit
/// (values next to 0 and next to 2^BITS).
pub(crate) fn shaped_word(k: u32) -> Word {
    let v: Word = kani::any();
    if k < Word::BITS {
        let hi = v >> k;
        kani::assume(hi == 0 || hi == (Word::MAX >> k));
    }
    v
}

pub(crate) fn shaped<const L: usize>(k: u32) -> Uint<L> {
    let mut limbs = [Limb::ZERO; L];
    let mut i = 0;
    while i < L {
        limbs[i] = Limb(shaped_word(k));
        i += 1;
    }
    Uint::new(limbs)
}

/// Ripple-carry reference: a + b + cin over L words; returns (sum words, carry out as integer).
pub(crate) fn ref_add<const L: usize>(a: &[Word; L], b: &[Word; L], cin: Word) -> ([Word; L], Word) {
    let mut out = [0 as Word; L];
    let mut c: WideWord = cin as WideWord;
    let mut i = 0;
    while i < L {
        let t: WideWord = (a[i] as WideWord) + (b[i] as WideWord) + c;
        out[i] = t as Word;
        c = t >> Word::BITS;
        i += 1;
    }
    (out, c as Word)
}

/// Ripple-borrow reference: a - b - bin (bin in {0,1}); returns (difference words, borrow out in {0,1}).
pub(crate) fn ref_sub<const L: usize>(a: &[Word; L], b: &[Word; L], bin: Word) -> ([Word; L], Word) {
    let mut out = [0 as Word; L];
    let mut br: Word = bin;
    let mut i = 0;
    while i < L {
        let (d1, o1) = a[i].overflowing_sub(b[i]);
        let (d2, o2) = d1.overflowing_sub(br);
        out[i] = d2;
        br = (o1 | o2) as Word;
        i += 1;
    }
    (out, br)
}

/// value as u64 of up to 8 narrow limbs / 1 wide limb (only meaningful if it fits).
pub(crate) fn to_u64<const L: usize>(x: &Uint<L>) -> u64 {
    let mut v: u64 = 0;
    let mut i = 0;
    while i < L {
        if (i as u32) * Word::BITS < 64 {
            v |= (x.as_limbs()[i].0 as u64) << ((i as u32) * Word::BITS);
        }
        i += 1;
    }
    v
}

pub(crate) fn to_u128<const L: usize>(x: &Uint<L>) -> u128 {
    let mut v: u128 = 0;
    let mut i = 0;
    while i < L {
        if (i as u32) * Word::BITS < 128 {
            v |= (x.as_limbs()[i].0 as u128) << ((i as u32) * Word::BITS);
        }
        i += 1;
    }
    v
}

pub(crate) fn from_u128<const L: usize>(v: u128) -> Uint<L> {
    let mut limbs = [Limb::ZERO; L];
    let mut i = 0;
    while i < L {
        if (i as u32) * Word::BITS < 128 {
            limbs[i] = Limb((v >> ((i as u32) * Word::BITS)) as Word);
        }
        i += 1;
    }
    Uint::new(limbs)
}

/// Bit `i` of a word array (false beyond the end).
pub(crate) fn bit_of<const L: usize>(w: &[Word; L], i: u32) -> bool {
    let limb = (i / Word::BITS) as usize;
    if limb >= L {
        return false;
    }
    (w[limb] >> (i % Word::BITS)) & 1 == 1
}

pub(crate) fn words_eq<const L: usize>(a: &[Word; L], b: &[Word; L]) -> bool {
    let mut ok = true;
    let mut i = 0;
    while i < L {
        ok &= a[i] == b[i];
        i += 1;
    }
    ok
}

pub(crate) fn is_zero_words<const L: usize>(a: &[Word; L]) -> bool {
    let mut z = true;
    let mut i = 0;
    while i < L {
        z &= a[i] == 0;
        i += 1;
    }
    z
}

/// a < b on little-endian word arrays (most significant limb first comparison).
pub(crate) fn ref_lt<const L: usize>(a: &[Word; L], b: &[Word; L]) -> bool {
    let mut i = L;
    while i > 0 {
        i -= 1;
        if a[i] != b[i] {
            return a[i] < b[i];
        }
    }
    false
}

#[cfg(feature = "alloc")]
pub(crate) mod boxed {
    use crate::{BoxedUint, Limb, Word};
    use alloc::vec::Vec;

    /// BoxedUint with a concrete number of limbs and fully symbolic words.
    pub(crate) fn any_boxed(n: usize) -> BoxedUint {
        let mut v: Vec<Word> = Vec::with_capacity(n);
        let mut i = 0;
        while i < n {
            v.push(kani::any());
            i += 1;
        }
        BoxedUint::from_words(v)
    }

    pub(crate) fn boxed_from<const L: usize>(w: &[Word; L]) -> BoxedUint {
        BoxedUint::from_words(w.iter().copied())
    }

    /// word i of a boxed value, zero beyond its precision
    pub(crate) fn bword(x: &BoxedUint, i: usize) -> Word {
        if i < x.nlimbs() { x.as_words()[i] } else { 0 }
    }

    /// words of x, zero-extended / truncated to L
    pub(crate) fn bwords<const L: usize>(x: &BoxedUint) -> [Word; L] {
        let mut w = [0 as Word; L];
        let mut i = 0;
        while i < L {
            w[i] = bword(x, i);
            i += 1;
        }
        w
    }
}

/// Marker placed after a call that is documented to panic on the assumed inputs.
/// Reaching it means the operation returned normally.
pub(crate) fn must_have_panicked() {
    panic!("VERIF-MUST-PANIC: operation returned normally where its documentation says it panics");
}

/// RNG stub: a bounded symbolic tape of 64-bit outputs, then a fixed fallback word
/// (so every rejection sampler terminates; the tape length is a stated bound).
#[cfg(feature = "rand_core")]
pub(crate) mod tape {
    pub(crate) const TAPE: usize = 6;
    pub(crate) struct Tape {
        pub w: [u64; TAPE],
        pub len: usize,
        pub pos: usize,
        pub fallback: u64,
        pub bytes: usize,
    }
    impl Tape {
        /// `len` symbolic words (len <= TAPE), then `fallback` forever.
        pub(crate) fn any(len: usize, fallback: u64) -> Self {
            let mut w = [0u64; TAPE];
            let mut i = 0;
            while i < TAPE {
                if i < len {
                    w[i] = kani::any();
                }
                i += 1;
            }
            Tape { w, len, pos: 0, fallback, bytes: 0 }
        }
        pub(crate) fn from_words(ws: &[u64], fallback: u64) -> Self {
            let mut w = [0u64; TAPE];
            let mut i = 0;
            while i < ws.len() && i < TAPE {
                w[i] = ws[i];
                i += 1;
            }
            Tape { w, len: ws.len(), pos: 0, fallback, bytes: 0 }
        }
        fn word(&mut self) -> u64 {
            let v = if self.pos < self.len { self.w[self.pos] } else { self.fallback };
            self.pos += 1;
            v
        }
    }
    impl rand_core::RngCore for Tape {
        fn next_u32(&mut self) -> u32 {
            self.bytes += 4;
            self.word() as u32
        }
        fn next_u64(&mut self) -> u64 {
            self.bytes += 8;
            self.word()
        }
        fn fill_bytes(&mut self, d: &mut [u8]) {
            // one tape word per byte (low 8 bits): keeps the byte stream fully symbolic
            for b in d.iter_mut() {
                *b = self.word() as u8;
            }
            self.bytes += d.len();
        }
    }
}

/// Top limb of a signed value: S(k) with an extra free flip of the sign bit, so that values next to
/// 0, -1, MIN and MAX are all inside the shape.
pub(crate) fn shaped_signed_top(k: u32) -> Word {
    let f: bool = kani::any();
    shaped_word(k) ^ if f { (1 as Word) << (Word::BITS - 1) } else { 0 }
}
