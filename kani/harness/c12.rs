//! C12 — NonZero / Odd can never hold an invalid value (k64, all argument values).
use crate::__verif_common::boxed::*;
use crate::__verif_common::tape::Tape;
use crate::__verif_common::*;
use crate::{
    BoxedUint, ConstChoice, Constants, Encoding, Int, Limb, NonZero, Odd, Random, Uint, Word, Zero, U128, U64,
};
use core::num::{NonZeroU128, NonZeroU16, NonZeroU32, NonZeroU64, NonZeroU8};
use subtle::{Choice, ConditionallySelectable};

fn nz_ok<const L: usize>(x: &NonZero<Uint<L>>) -> bool {
    !is_zero_words(&words_of(x.as_ref()))
}
fn odd_ok<const L: usize>(x: &Odd<Uint<L>>) -> bool {
    x.as_ref().as_limbs()[0].0 & 1 == 1
}

//@ prop=C12,C11 tier=quick profile=k64 funcs="NonZero::new,Uint::to_nz,Limb::to_nz,Int::to_nz,NonZero<Limb>::new_unwrap,NonZero<Uint>::new_unwrap,Odd::new,Uint::to_odd,Int::to_odd,Odd::as_nz_ref,NonZero<Int>::abs_sign,NonZero::conditional_select,Odd::conditional_select,NonZero::ONE,NonZero::MAX,NonZero::default" bound="Limb, Uint<3>, Int<2>: every argument value" free_bits=520
#[kani::proof]
#[kani::unwind(8)]
fn c12_constructors_fixed() {
    let a: Uint<3> = any_uint();
    let az = is_zero_words(&words_of(&a));
    // NonZero::new / to_nz
    let n = NonZero::new(a);
    assert!(bool::from(n.is_some()) == !az);
    if !az {
        assert!(n.unwrap().get() == a);
    }
    let t = a.to_nz();
    assert!(t.is_some().to_bool_vartime() == !az);
    if !az {
        let v = t.expect("nz");
        assert!(nz_ok(&v) && v.get() == a);
        assert!(NonZero::<Uint<3>>::new_unwrap(a).get() == a);
    }
    // Odd::new / to_odd / as_nz_ref
    let odd = a.as_limbs()[0].0 & 1 == 1;
    let o = Odd::new(a);
    assert!(bool::from(o.is_some()) == odd);
    let t = a.to_odd();
    assert!(t.is_some().to_bool_vartime() == odd);
    if odd {
        let v = t.expect("odd");
        assert!(odd_ok(&v) && v.get() == a);
        assert!(nz_ok(v.as_nz_ref()) && *v.as_nz_ref().as_ref() == a);
        let r: &NonZero<Uint<3>> = AsRef::<NonZero<Uint<3>>>::as_ref(&v);
        assert!(nz_ok(r));
    }
    // Limb
    let w: Word = kani::any();
    assert!(bool::from(NonZero::new(Limb(w)).is_some()) == (w != 0));
    assert!(Limb(w).to_nz().is_some().to_bool_vartime() == (w != 0));
    if w != 0 {
        assert!(NonZero::<Limb>::new_unwrap(Limb(w)).get().0 == w);
    }
    // Int
    let i: Int<2> = Int::from_bits(any_uint());
    let iz = is_zero_words(&words_of(i.as_uint()));
    assert!(bool::from(NonZero::new(i).is_some()) == !iz);
    assert!(i.to_nz().is_some().to_bool_vartime() == !iz);
    assert!(i.to_odd().is_some().to_bool_vartime() == (i.as_uint().as_limbs()[0].0 & 1 == 1));
    if !iz {
        let nzi = NonZero::new(i).unwrap();
        let (mag, sign) = nzi.abs_sign();
        assert!(nz_ok(&mag));
        assert!(sign.to_bool_vartime() == i.is_negative().to_bool_vartime());
        assert!(*mag.as_ref() == i.abs());
    }
    // selection between valid values stays valid
    let b: Uint<3> = any_uint();
    let c: bool = kani::any();
    if !az && !is_zero_words(&words_of(&b)) {
        let s = NonZero::conditional_select(&NonZero::new(a).unwrap(), &NonZero::new(b).unwrap(), Choice::from(c as u8));
        assert!(nz_ok(&s) && s.get() == if c { b } else { a });
    }
    if odd && b.as_limbs()[0].0 & 1 == 1 {
        let s = Odd::conditional_select(&Odd::new(a).unwrap(), &Odd::new(b).unwrap(), Choice::from(c as u8));
        assert!(odd_ok(&s) && s.get() == if c { b } else { a });
    }
    // constants and Default of NonZero
    assert!(nz_ok(&NonZero::<Uint<3>>::ONE) && nz_ok(&NonZero::<Uint<3>>::MAX));
    assert!(NonZero::<Limb>::ONE.get().0 == 1 && NonZero::<Limb>::MAX.get().0 == Word::MAX);
    assert!(nz_ok(&NonZero::<Uint<3>>::default()) && NonZero::<Limb>::default().get().0 != 0);
    assert!(!bool::from(NonZero::<Int<2>>::default().get().is_zero()));
    kani::cover!(az);
    kani::cover!(odd && !az);
}

//@ prop=C12,C11 tier=quick profile=k64 funcs="NonZero<Uint>::new_unwrap" bound="Uint<2> == 0: must panic" must_panic=1
#[kani::proof]
#[kani::unwind(4)]
fn c12_new_unwrap_zero_panics() {
    let _ = NonZero::<Uint<2>>::new_unwrap(Uint::ZERO);
    must_have_panicked();
}

//@ prop=C12,C11 tier=quick profile=k64 funcs="NonZero<Limb>::new_unwrap" bound="Limb == 0: must panic" must_panic=1
#[kani::proof]
fn c12_new_unwrap_limb_zero_panics() {
    let _ = NonZero::<Limb>::new_unwrap(Limb::ZERO);
    must_have_panicked();
}

//@ prop=C12 tier=quick profile=k64 funcs="Odd::default" bound="Odd<Uint<2>>::default(), Odd<Limb>::default(): the produced value must be odd" expect=finding:odd_default_zero
#[kani::proof]
#[kani::unwind(4)]
fn c12_odd_default() {
    let d: Odd<Uint<2>> = Default::default();
    assert!(d.as_ref().as_limbs()[0].0 & 1 == 1);
}

//@ prop=C12,C11,C16 tier=quick profile=k64 funcs="NonZero<Limb>::from_u8,from_u16,from_u32,from_u64,NonZero<Uint>::from_u8,from_u16,from_u32,from_u64,from_u128,From<NonZeroU*>" bound="every non-zero primitive value; Limb, Uint<2>, Uint<3>" free_bits=248
#[kani::proof]
#[kani::unwind(6)]
fn c12_from_nonzero_primitives() {
    let a: u8 = kani::any();
    let b: u16 = kani::any();
    let c: u32 = kani::any();
    let d: u64 = kani::any();
    let e: u128 = kani::any();
    kani::assume(a != 0 && b != 0 && c != 0 && d != 0 && e != 0);
    let (na, nb, nc, nd, ne) = (
        NonZeroU8::new(a).unwrap(),
        NonZeroU16::new(b).unwrap(),
        NonZeroU32::new(c).unwrap(),
        NonZeroU64::new(d).unwrap(),
        NonZeroU128::new(e).unwrap(),
    );
    assert!(NonZero::<Limb>::from_u8(na).get().0 == a as Word && NonZero::<Limb>::from(na).get().0 == a as Word);
    assert!(NonZero::<Limb>::from_u16(nb).get().0 == b as Word && NonZero::<Limb>::from(nb).get().0 == b as Word);
    assert!(NonZero::<Limb>::from_u32(nc).get().0 == c as Word && NonZero::<Limb>::from(nc).get().0 == c as Word);
    assert!(NonZero::<Limb>::from_u64(nd).get().0 == d as Word && NonZero::<Limb>::from(nd).get().0 == d as Word);
    assert!(to_u128(NonZero::<Uint<2>>::from_u8(na).as_ref()) == a as u128 && to_u128(NonZero::<Uint<2>>::from(na).as_ref()) == a as u128);
    assert!(to_u128(NonZero::<Uint<2>>::from_u16(nb).as_ref()) == b as u128 && to_u128(NonZero::<Uint<2>>::from(nb).as_ref()) == b as u128);
    assert!(to_u128(NonZero::<Uint<2>>::from_u32(nc).as_ref()) == c as u128 && to_u128(NonZero::<Uint<2>>::from(nc).as_ref()) == c as u128);
    assert!(to_u128(NonZero::<Uint<2>>::from_u64(nd).as_ref()) == d as u128 && to_u128(NonZero::<Uint<2>>::from(nd).as_ref()) == d as u128);
    assert!(to_u128(NonZero::<Uint<2>>::from_u128(ne).as_ref()) == e && to_u128(NonZero::<Uint<2>>::from(ne).as_ref()) == e);
    let w3 = NonZero::<Uint<3>>::from_u128(ne);
    assert!(to_u128(w3.as_ref()) == e && w3.as_ref().as_limbs()[2].0 == 0 && nz_ok(&w3));
    assert!(to_u128(NonZero::<Uint<1>>::from_u64(nd).as_ref()) == d as u128);
}

//@ prop=C12,C11 tier=quick profile=k64 funcs="NonZero<Uint<1>>::from_u128,From<NonZeroU128> for NonZero<Uint<1>>,Uint::from_u128" bound="every non-zero u128 into a single-limb target: a valid (non-zero, value-preserving) result or a panic" free_bits=128 may_panic=1
#[kani::proof]
#[kani::unwind(6)]
fn c12_from_u128_into_one_limb() {
    let e: u128 = kani::any();
    kani::assume(e != 0);
    let r = NonZero::<Uint<1>>::from_u128(NonZeroU128::new(e).unwrap());
    assert!(r.as_ref().as_limbs()[0].0 != 0);
    assert!(r.as_ref().as_limbs()[0].0 as u128 == e);
}

//@ prop=C12,C16,C11 tier=quick profile=k64 funcs="NonZero::from_be_bytes,NonZero::from_le_bytes,NonZero::from_be_byte_array,NonZero::from_le_byte_array" bound="U128: every 16-byte string in both byte orders" free_bits=128 expect=finding:nz_from_le_byte_array
#[kani::proof]
#[kani::unwind(20)]
fn c12_nonzero_byte_decoders() {
    let bytes: [u8; 16] = kani::any();
    let be = u128::from_be_bytes(bytes);
    let le = u128::from_le_bytes(bytes);
    let r = NonZero::<U128>::from_be_bytes(bytes);
    assert!(bool::from(r.is_some()) == (be != 0));
    if be != 0 {
        assert!(to_u128(r.unwrap().as_ref()) == be);
    }
    let r = NonZero::<U128>::from_le_bytes(bytes);
    assert!(bool::from(r.is_some()) == (le != 0));
    if le != 0 {
        assert!(to_u128(r.unwrap().as_ref()) == le);
    }
    let r = NonZero::<U128>::from_be_byte_array(bytes.into());
    assert!(bool::from(r.is_some()) == (be != 0));
    if be != 0 {
        assert!(to_u128(r.unwrap().as_ref()) == be);
    }
    let r = NonZero::<U128>::from_le_byte_array(bytes.into());
    assert!(bool::from(r.is_some()) == (le != 0));
    if le != 0 {
        assert!(to_u128(r.unwrap().as_ref()) == le); // decoded in the stated (little-endian) byte order
    }
}

fn hex_digit(n: u8, upper: bool) -> u8 {
    if n < 10 {
        b'0' + n
    } else if upper {
        b'A' + (n - 10)
    } else {
        b'a' + (n - 10)
    }
}

//@ prop=C12,C16,C11 tier=quick profile=k64 funcs="Odd::from_be_hex,Odd::from_le_hex,Uint::from_be_hex,Uint::from_le_hex" bound="U64: every 16-digit hex string (either case per digit) denoting an odd value in the stated byte order" free_bits=80 expect=finding:odd_from_le_hex
#[kani::proof]
#[kani::unwind(20)]
fn c12_odd_hex_decoders() {
    let v: u64 = kani::any();
    let case: u16 = kani::any();
    // big-endian numeral of v
    let mut s = [0u8; 16];
    let mut i = 0;
    while i < 16 {
        let nib = ((v >> (4 * (15 - i))) & 0xf) as u8;
        s[i] = hex_digit(nib, (case >> i) & 1 == 1);
        i += 1;
    }
    let txt = unsafe { core::str::from_utf8_unchecked(&s) };
    if v & 1 == 1 {
        let o = Odd::<U64>::from_be_hex(txt);
        assert!(o.as_ref().as_limbs()[0].0 == v);
    }
    // the same digits read as a little-endian (byte-reversed) numeral
    let le = v.swap_bytes();
    if le & 1 == 1 {
        let o = Odd::<U64>::from_le_hex(txt);
        assert!(o.as_ref().as_limbs()[0].0 & 1 == 1);
        assert!(o.as_ref().as_limbs()[0].0 == le);
    }
    kani::cover!(v & 1 == 1 && le & 1 == 0);
}

//@ prop=C12,C11 tier=quick profile=k64 funcs="Odd::from_be_hex" bound="U64: every 16-digit hex string denoting an even value: must panic" free_bits=64 must_panic=1
#[kani::proof]
#[kani::unwind(20)]
fn c12_odd_from_be_hex_even_panics() {
    let v: u64 = kani::any();
    kani::assume(v & 1 == 0);
    let mut s = [0u8; 16];
    let mut i = 0;
    while i < 16 {
        s[i] = hex_digit(((v >> (4 * (15 - i))) & 0xf) as u8, false);
        i += 1;
    }
    let _ = Odd::<U64>::from_be_hex(unsafe { core::str::from_utf8_unchecked(&s) });
    must_have_panicked();
}

// ---------------------------------------------------------------- boxed
//@ prop=C12,C11 tier=quick profile=k64 funcs="NonZero<BoxedUint>::new,BoxedUint::to_odd,Odd<BoxedUint>::new,Odd::as_nz_ref" bound="BoxedUint 1..3 limbs (concrete length per instance), every value" free_bits=384
#[kani::proof]
#[kani::unwind(8)]
fn c12_constructors_boxed() {
    let a = any_boxed(3);
    let aw: [Word; 3] = bwords(&a);
    let n = NonZero::new(a.clone());
    assert!(bool::from(n.is_some()) == !is_zero_words(&aw));
    let o = a.to_odd();
    assert!(bool::from(o.is_some()) == (aw[0] & 1 == 1));
    let o2 = Odd::new(a.clone());
    assert!(bool::from(o2.is_some()) == (aw[0] & 1 == 1));
    if aw[0] & 1 == 1 {
        let v = o.unwrap();
        assert!(words_eq(&bwords::<3>(v.as_ref()), &aw));
        assert!(!bool::from(v.as_nz_ref().as_ref().is_zero()));
        core::mem::forget(v);
    }
    let b = any_boxed(1);
    assert!(bool::from(NonZero::new(b.clone()).is_some()) == (bword(&b, 0) != 0));
    assert!(bool::from(b.to_odd().is_some()) == (bword(&b, 0) & 1 == 1));
    core::mem::forget((a, b));
}

// ---------------------------------------------------------------- random producers over every RNG stream (bounded tape)
//@ prop=C12,C19,C11 tier=quick profile=k64 funcs="NonZero<Limb>::try_random,NonZero<Uint<2>>::try_random,Odd<Uint<2>>::try_random,Limb::try_random,Uint::try_random" bound="every RNG stream: 5 symbolic 64-bit outputs (all-zero prefixes included) followed by the constant 1" free_bits=320 stubs="RNG = bounded symbolic tape (5 words) then constant 1"
#[kani::proof]
#[kani::unwind(8)]
fn c12_random_fixed() {
    let mut t = Tape::any(5, 1);
    let r = NonZero::<Limb>::try_random(&mut t).unwrap();
    assert!(r.get().0 != 0);
    let mut t2 = Tape::any(5, 1);
    let r2 = NonZero::<Uint<2>>::try_random(&mut t2).unwrap();
    assert!(nz_ok(&r2));
    let mut t3 = Tape::any(2, 0);
    let r3 = Odd::<Uint<2>>::try_random(&mut t3).unwrap();
    assert!(odd_ok(&r3));
    kani::cover!(t.w[0] == 0 && t.w[1] == 0 && t.pos >= 3);
    kani::cover!(t2.w[0] == 0 && t2.w[1] == 0 && t2.w[2] == 0 && t2.w[3] == 0 && t2.pos >= 6);
}

macro_rules! random_odd_boxed {
    ($name:ident, $bits:expr) => {
        #[kani::proof]
        #[kani::unwind(20)]
        fn $name() {
            let mut t = Tape::any(3, 0);
            let o = Odd::<BoxedUint>::random(&mut t, $bits);
            assert!(bword(o.as_ref(), 0) & 1 == 1);
            assert!(o.as_ref().bits_precision() >= $bits);
            core::mem::forget(o);
        }
    };
}
//@ name=c12_random_odd_boxed_1 prop=C12,C19,C11 tier=quick profile=k64 funcs="Odd<BoxedUint>::random,BoxedUint::random_bits" bound="bit_length=1, every RNG stream of 3 symbolic words then zeros" free_bits=192 stubs="RNG = bounded symbolic tape"
random_odd_boxed!(c12_random_odd_boxed_1, 1);
//@ name=c12_random_odd_boxed_64 prop=C12,C19,C11 tier=quick profile=k64 funcs="Odd<BoxedUint>::random,BoxedUint::random_bits" bound="bit_length=64, every RNG stream of 3 symbolic words then zeros" free_bits=192 stubs="RNG = bounded symbolic tape"
random_odd_boxed!(c12_random_odd_boxed_64, 64);
//@ name=c12_random_odd_boxed_65 prop=C12,C19,C11 tier=quick profile=k64 funcs="Odd<BoxedUint>::random,BoxedUint::random_bits" bound="bit_length=65, every RNG stream of 3 symbolic words then zeros" free_bits=192 stubs="RNG = bounded symbolic tape"
random_odd_boxed!(c12_random_odd_boxed_65, 65);
//@ name=c12_random_odd_boxed_0 prop=C12,C19,C11 tier=quick profile=k64 funcs="Odd<BoxedUint>::random,BoxedUint::random_bits" bound="bit_length=0: a valid odd value, never an out-of-bounds index" free_bits=192 stubs="RNG = bounded symbolic tape" core=C11
random_odd_boxed!(c12_random_odd_boxed_0, 0);
