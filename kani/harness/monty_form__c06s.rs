//! C06 (selection of Montgomery values) — conditional select / assign / swap on MontyParams and
//! MontyForm return exactly the chosen operand, field for field.  k64; child of `modular::monty_form`
//! (the parameter fields are private).  Operands are arbitrary field values: selection is structural.
use super::{MontyForm, MontyParams};
use crate::__verif_common::*;
use crate::{Limb, Odd, Uint};
use subtle::{Choice, ConditionallySelectable};

fn any_params() -> MontyParams<2> {
    MontyParams {
        modulus: Odd(any_uint()),
        one: any_uint(),
        r2: any_uint(),
        r3: any_uint(),
        mod_neg_inv: Limb(kani::any()),
        mod_leading_zeros: kani::any(),
    }
}
fn same(a: &MontyParams<2>, b: &MontyParams<2>) -> bool {
    words_eq(&words_of(a.modulus.as_ref()), &words_of(b.modulus.as_ref()))
        && words_eq(&words_of(&a.one), &words_of(&b.one))
        && words_eq(&words_of(&a.r2), &words_of(&b.r2))
        && words_eq(&words_of(&a.r3), &words_of(&b.r3))
        && a.mod_neg_inv.0 == b.mod_neg_inv.0
        && a.mod_leading_zeros == b.mod_leading_zeros
}

//@ prop=C06,C08,C11 tier=quick profile=k64 funcs="ConditionallySelectable for MontyParams,ConditionallySelectable for MontyForm (conditional_select, conditional_assign, conditional_swap)" bound="MontyParams<2> / MontyForm<2> with arbitrary field values, both choice values: the result is exactly one operand, every field" free_bits=1300
#[kani::proof]
#[kani::unwind(6)]
fn c06_monty_select_exact() {
    let (a, b) = (any_params(), any_params());
    let c: bool = kani::any();
    let ch = Choice::from(c as u8);
    let s = MontyParams::conditional_select(&a, &b, ch);
    assert!(same(&s, if c { &b } else { &a }));
    let (x, y): (Uint<2>, Uint<2>) = (any_uint(), any_uint());
    let (fa, fb) = (MontyForm::from_montgomery(x, a), MontyForm::from_montgomery(y, b));
    let fs = MontyForm::conditional_select(&fa, &fb, ch);
    assert!(words_eq(&words_of(fs.as_montgomery()), &words_of(if c { &y } else { &x })) && same(fs.params(), if c { &b } else { &a }));
    let mut t = fa;
    t.conditional_assign(&fb, ch);
    assert!(words_eq(&words_of(t.as_montgomery()), &words_of(if c { &y } else { &x })) && same(t.params(), if c { &b } else { &a }));
    let (mut u, mut v) = (fa, fb);
    MontyForm::conditional_swap(&mut u, &mut v, ch);
    assert!(same(u.params(), if c { &b } else { &a }) && same(v.params(), if c { &a } else { &b }));
    assert!(words_eq(&words_of(u.as_montgomery()), &words_of(if c { &y } else { &x })));
}
