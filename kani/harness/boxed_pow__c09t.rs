//! C09 (boxed pow, final reduction) — a cut-point check.  The loop of the boxed
//! `pow_montgomery_form` leaves an accumulator z with floor(z / m) <= 2 (the function's own comment,
//! derived from the almost-Montgomery-multiplication contract checked in c08_k8_almost_montgomery_mul_2);
//! the tail must bring every such z into [0, m).  With 8-bit (and 16-bit) words no exponentiation
//! reaches z = 2m exactly (exhaustive simulation), so a wrong comparison in the tail is invisible to
//! the whole-function harnesses at that bound; here the tail — the text of the current source from
//! the first `z.conditional_sbb_assign(` to the function's final `z` — is executed from an
//! ARBITRARY z < 3m, at real 64-bit words.
//@@ extract file=modular/boxed_monty_form/pow.rs from="    z.conditional_sbb_assign(modulus" to="\n    z\n}" sig="pub(crate) fn __verif_pow_tail(mut z: crate::BoxedUint, modulus: &crate::BoxedUint) -> crate::BoxedUint" ret="z"
use super::__verif_pow_tail;
use crate::__verif_common::boxed::*;
use crate::__verif_common::*;
use crate::Word;

macro_rules! pow_tail {
    ($name:ident, $L:expr) => {
        #[kani::proof]
        #[kani::unwind(8)]
        fn $name() {
            const L: usize = $L;
            let mw: [Word; L] = kani::any();
            let zw: [Word; L] = kani::any();
            kani::assume(mw[0] & 1 == 1);
            // z < 3m, written without overflow: z - m - m < m whenever the subtractions do not borrow
            let (d1, b1) = ref_sub(&zw, &mw, 0);
            let (d2, b2) = ref_sub(&d1, &mw, 0);
            kani::assume(ref_lt(&zw, &mw) || (b1 == 0 && ref_lt(&d1, &mw)) || (b1 == 0 && b2 == 0 && ref_lt(&d2, &mw)));
            let want = if ref_lt(&zw, &mw) { zw } else if ref_lt(&d1, &mw) { d1 } else { d2 };
            let r = __verif_pow_tail(boxed_from(&zw), &boxed_from(&mw));
            assert!(r.nlimbs() == L && words_eq(&bwords::<L>(&r), &want));
            kani::cover!(words_eq(&d2, &[0; L]) && b1 == 0 && b2 == 0 && !ref_lt(&d1, &mw)); // z == 2m
            kani::cover!(words_eq(&d1, &[0; L])); // z == m
            kani::cover!(ref_lt(&zw, &mw));
            core::mem::forget(r);
        }
    };
}
//@ name=c09_boxed_pow_tail_1 prop=C09,C11 tier=quick profile=k64 funcs="pow_montgomery_form (boxed): final reduction after the window loop" bound="real u64 words, 1 limb: every odd m, every accumulator z < 3m" free_bits=128 assumes="cut point: z < 3m at loop exit (documented AMM property)"
pow_tail!(c09_boxed_pow_tail_1, 1);
//@ name=c09_boxed_pow_tail_2 prop=C09,C11 tier=quick profile=k64 funcs="pow_montgomery_form (boxed): final reduction after the window loop" bound="real u64 words, 2 limbs: every odd m, every accumulator z < 3m" free_bits=256 assumes="cut point: z < 3m at loop exit (documented AMM property)"
pow_tail!(c09_boxed_pow_tail_2, 2);
//@ name=c09_boxed_pow_tail_3 prop=C09,C11 tier=quick profile=k64 funcs="pow_montgomery_form (boxed): final reduction after the window loop" bound="real u64 words, 3 limbs: every odd m, every accumulator z < 3m" free_bits=384 assumes="cut point: z < 3m at loop exit (documented AMM property)"
pow_tail!(c09_boxed_pow_tail_3, 3);
