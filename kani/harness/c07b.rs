//! C07 (boxed part, k8) — BoxedUint::mul_mod / MulMod (through BoxedMontyParams::new, BoxedMontyForm)
//! and mul_mod_special, against the division-free predicate q*p + r == a*b, r < p.
use crate::__verif_common::boxed::*;
use crate::__verif_common::*;
use crate::{BoxedUint, Limb, MulMod, Uint, Word};

fn bval(x: &BoxedUint) -> u64 {
    let mut v: u64 = 0;
    let mut i = 0;
    while i < x.nlimbs() && i < 8 {
        v |= (bword(x, i) as u64) << (8 * i);
        i += 1;
    }
    v
}

macro_rules! boxed_mul_mod {
    ($name:ident, $L:expr, $p:expr, $a:expr, $b:expr) => {
        #[kani::proof]
        #[kani::unwind(12)]
        fn $name() {
            let pf: Uint<$L> = $p;
            let (af, bf): (Uint<$L>, Uint<$L>) = ($a, $b);
            let (pv, av, bv) = (to_u64(&pf), to_u64(&af), to_u64(&bf));
            kani::assume(pv & 1 == 1 && av < pv && bv < pv);
            let (p, a, b) = (boxed_from(&words_of(&pf)), boxed_from(&words_of(&af)), boxed_from(&words_of(&bf)));
            let r = a.mul_mod(&b, &p);
            let rv = bval(&r);
            let q: u64 = kani::any();
            kani::assume(q <= pv && q * pv <= av * bv && av * bv < (q + 1) * pv);
            assert!(r.nlimbs() == $L && rv < pv && q * pv + rv == av * bv);
            kani::cover!(rv == 1 && av > 1 && bv > 1);
            kani::cover!(av == pv - 1 && bv == pv - 1);
            core::mem::forget((p, a, b, r));
        }
    };
}
// BoxedMontyParams::new on a *symbolic* modulus (boxed rem of a widened square, inv_mod2k_vartime)
// does not finish within 900 s even at one 8-bit limb; the moduli are therefore concrete (so that
// parameter derivation is executed concretely by symex) and the operands symbolic.
//@ name=c07_k8_boxed_mul_mod_ffff prop=C07,C15,C11 tier=quick profile=k8 funcs="BoxedUint::mul_mod,MulMod for BoxedUint,BoxedMontyParams::new,BoxedMontyForm::new,BoxedMontyForm::mul,almost_montgomery_mul,BoxedMontyForm::retrieve" bound="u8 words, boxed 2 limbs, CONCRETE p = 0xffff = 2^16 - 1: a, b = [S(2), S(2)^sign] < p" free_bits=12
boxed_mul_mod!(c07_k8_boxed_mul_mod_ffff, 2, Uint::new([Limb(0xff), Limb(0xff)]), Uint::new([Limb(shaped_word(2)), Limb(shaped_signed_top(2))]), Uint::new([Limb(shaped_word(2)), Limb(shaped_signed_top(2))]));
//@ name=c07_k8_boxed_mul_mod_fffd prop=C07,C15,C11 tier=quick profile=k8 funcs="BoxedUint::mul_mod,BoxedMontyParams::new,BoxedMontyForm::mul,almost_montgomery_mul" bound="u8 words, boxed 2 limbs, CONCRETE p = 0xfffd = 2^16 - 3: a, b = [S(2), S(2)^sign] < p" free_bits=12
boxed_mul_mod!(c07_k8_boxed_mul_mod_fffd, 2, Uint::new([Limb(0xfd), Limb(0xff)]), Uint::new([Limb(shaped_word(2)), Limb(shaped_signed_top(2))]), Uint::new([Limb(shaped_word(2)), Limb(shaped_signed_top(2))]));
//@ name=c07_k8_boxed_mul_mod_8001 prop=C07,C15,C11 tier=quick profile=k8 funcs="BoxedUint::mul_mod,BoxedMontyParams::new,BoxedMontyForm::mul,almost_montgomery_mul" bound="u8 words, boxed 2 limbs, CONCRETE p = 0x8001: a, b = [S(2), S(2)^sign] < p" free_bits=12
boxed_mul_mod!(c07_k8_boxed_mul_mod_8001, 2, Uint::new([Limb(0x01), Limb(0x80)]), Uint::new([Limb(shaped_word(2)), Limb(shaped_signed_top(2))]), Uint::new([Limb(shaped_word(2)), Limb(shaped_signed_top(2))]));
//@ name=c07_k8_boxed_mul_mod_3l prop=C07,C15,C11 tier=thorough profile=k8 funcs="BoxedUint::mul_mod,BoxedMontyParams::new,BoxedMontyForm::mul,almost_montgomery_mul" bound="u8 words, boxed 3 limbs, CONCRETE p = 0xffffff: a, b limbs S(1) (top limb with free sign) < p" free_bits=10
boxed_mul_mod!(c07_k8_boxed_mul_mod_3l, 3, Uint::new([Limb(0xff), Limb(0xff), Limb(0xff)]), Uint::new([Limb(shaped_word(1)), Limb(shaped_word(1)), Limb(shaped_signed_top(1))]), Uint::new([Limb(shaped_word(1)), Limb(shaped_word(1)), Limb(shaped_signed_top(1))]));
