//! C05 (boxed part) — BoxedUint shifts, bit queries and bitwise operators agree with the binary
//! expansion (k64, real u64 words), at 1..3 limbs including a width that is not a power of two.
use crate::__verif_common::boxed::*;
use crate::__verif_common::*;
use crate::{BitOps, BoxedUint, Limb, ShlVartime, ShrVartime, Uint, Word, WrappingShl, WrappingShr};

macro_rules! boxed_shl {
    ($name:ident, $L:expr) => {
        #[kani::proof]
        #[kani::unwind(10)]
        fn $name() {
            const L: usize = $L;
            let bits = (L as u32) * Limb::BITS;
            let xw: [Word; L] = kani::any();
            let x = boxed_from(&xw);
            let s: u32 = kani::any();
            let i: u32 = kani::any();
            kani::assume(i < bits);
            let (r, ov) = x.overflowing_shl(s);
            assert!(bool::from(ov) == (s >= bits) && r.nlimbs() == L);
            let rw = bwords::<L>(&r);
            if s < bits {
                assert!(bit_of(&rw, i) == (i >= s && bit_of(&xw, i - s)));
            } else {
                assert!(is_zero_words(&rw)); // documented: zero and a truthy Choice
            }
            let v = x.shl_vartime(s);
            assert!(v.is_some() == (s < bits));
            if let Some(v) = v {
                assert!(words_eq(&bwords::<L>(&v), &rw) && v.nlimbs() == L);
                core::mem::forget(v);
            }
            let w = x.wrapping_shl(s);
            assert!(words_eq(&bwords::<L>(&w), &rw) && w.nlimbs() == L);
            let wv = x.wrapping_shl_vartime(s);
            assert!(words_eq(&bwords::<L>(&wv), &rw) && wv.nlimbs() == L);
            kani::cover!(s == bits - 1 && bit_of(&xw, 0));
            kani::cover!(s == bits);
            kani::cover!(s == u32::MAX);
            kani::cover!(s == Limb::BITS);
            kani::cover!(s == 0);
            core::mem::forget((x, r, w, wv));
        }
    };
}
macro_rules! boxed_shr {
    ($name:ident, $L:expr) => {
        #[kani::proof]
        #[kani::unwind(10)]
        fn $name() {
            const L: usize = $L;
            let bits = (L as u32) * Limb::BITS;
            let xw: [Word; L] = kani::any();
            let x = boxed_from(&xw);
            let s: u32 = kani::any();
            let i: u32 = kani::any();
            kani::assume(i < bits);
            let (r, ov) = x.overflowing_shr(s);
            assert!(bool::from(ov) == (s >= bits) && r.nlimbs() == L);
            let rw = bwords::<L>(&r);
            if s < bits {
                assert!(bit_of(&rw, i) == bit_of(&xw, i + s));
            } else {
                assert!(is_zero_words(&rw));
            }
            let v = x.shr_vartime(s);
            assert!(v.is_some() == (s < bits));
            if let Some(v) = v {
                assert!(words_eq(&bwords::<L>(&v), &rw) && v.nlimbs() == L);
                core::mem::forget(v);
            }
            let w = x.wrapping_shr(s);
            assert!(words_eq(&bwords::<L>(&w), &rw) && w.nlimbs() == L);
            let wv = x.wrapping_shr_vartime(s);
            assert!(words_eq(&bwords::<L>(&wv), &rw) && wv.nlimbs() == L);
            kani::cover!(s == bits - 1 && bit_of(&xw, bits - 1));
            kani::cover!(s == bits);
            kani::cover!(s == u32::MAX);
            kani::cover!(s == 0);
            core::mem::forget((x, r, w, wv));
        }
    };
}
//@ name=c05_boxed1_shl prop=C05,C11,C15 tier=quick profile=k64 funcs="BoxedUint::overflowing_shl,BoxedUint::overflowing_shl_assign,BoxedUint::shl_vartime,BoxedUint::wrapping_shl,BoxedUint::wrapping_shl_vartime,shl_vartime_into" bound="BoxedUint 1 limb, all values, every u32 shift, symbolic bit index" free_bits=104
boxed_shl!(c05_boxed1_shl, 1);
//@ name=c05_boxed2_shl prop=C05,C11,C15 tier=quick profile=k64 funcs="BoxedUint::overflowing_shl,BoxedUint::overflowing_shl_assign,BoxedUint::shl_vartime,BoxedUint::wrapping_shl,BoxedUint::wrapping_shl_vartime,shl_vartime_into" bound="BoxedUint 2 limbs, all values, every u32 shift, symbolic bit index" free_bits=168
boxed_shl!(c05_boxed2_shl, 2);
//@ name=c05_boxed3_shl prop=C05,C11,C15 tier=quick profile=k64 funcs="BoxedUint::overflowing_shl,BoxedUint::overflowing_shl_assign,BoxedUint::shl_vartime,BoxedUint::wrapping_shl,BoxedUint::wrapping_shl_vartime,shl_vartime_into" bound="BoxedUint 3 limbs (width not a power of two), all values, every u32 shift, symbolic bit index" free_bits=232
boxed_shl!(c05_boxed3_shl, 3);
//@ name=c05_boxed5_shl prop=C05,C11,C15 tier=thorough profile=k64 funcs="BoxedUint::overflowing_shl,BoxedUint::shl_vartime,BoxedUint::wrapping_shl,BoxedUint::wrapping_shl_vartime" bound="BoxedUint 5 limbs, all values, every u32 shift, symbolic bit index" free_bits=360
boxed_shl!(c05_boxed5_shl, 5);
//@ name=c05_boxed1_shr prop=C05,C11,C15 tier=quick profile=k64 funcs="BoxedUint::overflowing_shr,BoxedUint::overflowing_shr_assign,BoxedUint::shr_vartime,BoxedUint::wrapping_shr,BoxedUint::wrapping_shr_vartime,shr_vartime_into" bound="BoxedUint 1 limb, all values, every u32 shift, symbolic bit index" free_bits=104
boxed_shr!(c05_boxed1_shr, 1);
//@ name=c05_boxed2_shr prop=C05,C11,C15 tier=quick profile=k64 funcs="BoxedUint::overflowing_shr,BoxedUint::overflowing_shr_assign,BoxedUint::shr_vartime,BoxedUint::wrapping_shr,BoxedUint::wrapping_shr_vartime,shr_vartime_into" bound="BoxedUint 2 limbs, all values, every u32 shift, symbolic bit index" free_bits=168
boxed_shr!(c05_boxed2_shr, 2);
//@ name=c05_boxed3_shr prop=C05,C11,C15 tier=quick profile=k64 funcs="BoxedUint::overflowing_shr,BoxedUint::overflowing_shr_assign,BoxedUint::shr_vartime,BoxedUint::wrapping_shr,BoxedUint::wrapping_shr_vartime,shr_vartime_into" bound="BoxedUint 3 limbs (width not a power of two), all values, every u32 shift, symbolic bit index" free_bits=232
boxed_shr!(c05_boxed3_shr, 3);
//@ name=c05_boxed5_shr prop=C05,C11,C15 tier=thorough profile=k64 funcs="BoxedUint::overflowing_shr,BoxedUint::shr_vartime,BoxedUint::wrapping_shr,BoxedUint::wrapping_shr_vartime" bound="BoxedUint 5 limbs, all values, every u32 shift, symbolic bit index" free_bits=360
boxed_shr!(c05_boxed5_shr, 5);

macro_rules! boxed_shift_forms {
    ($name:ident, $W:expr) => {
        #[kani::proof]
        #[kani::unwind(10)]
        fn $name() {
            const L: usize = 3;
            let bits = (L as u32) * Limb::BITS;
            let xw: [Word; L] = kani::any();
            let x = boxed_from(&xw);
            let s: u32 = kani::any();
            kani::assume(s < bits);
            let l = bwords::<L>(&x.overflowing_shl(s).0);
            let r = bwords::<L>(&x.overflowing_shr(s).0);
            let which: u8 = $W;
            match which {
                0 => {
                    assert!(words_eq(&bwords::<L>(&x.shl(s)), &l) && words_eq(&bwords::<L>(&x.shr(s)), &r));
                }
                1 => {
                    let mut y = x.clone();
                    y.shl_assign(s);
                    let mut z = x.clone();
                    z.shr_assign(s);
                    assert!(words_eq(&bwords::<L>(&y), &l) && words_eq(&bwords::<L>(&z), &r));
                }
                2 => {
                    assert!(words_eq(&bwords::<L>(&(&x << s)), &l) && words_eq(&bwords::<L>(&(&x >> s)), &r));
                    assert!(words_eq(&bwords::<L>(&(x.clone() << s as usize)), &l));
                    assert!(words_eq(&bwords::<L>(&(x.clone() >> s as i32)), &r));
                }
                3 => {
                    let mut y = x.clone();
                    y <<= s;
                    let mut z = x.clone();
                    z >>= s as usize;
                    assert!(words_eq(&bwords::<L>(&y), &l) && words_eq(&bwords::<L>(&z), &r));
                }
                4 => {
                    assert!(words_eq(&bwords::<L>(&WrappingShl::wrapping_shl(&x, s)), &l));
                    assert!(words_eq(&bwords::<L>(&WrappingShr::wrapping_shr(&x, s)), &r));
                    assert!(words_eq(&bwords::<L>(&ShlVartime::wrapping_shl_vartime(&x, s)), &l));
                    assert!(words_eq(&bwords::<L>(&ShrVartime::wrapping_shr_vartime(&x, s)), &r));
                    let o = ShlVartime::overflowing_shl_vartime(&x, s);
                    let p = ShrVartime::overflowing_shr_vartime(&x, s);
                    assert!(bool::from(o.is_some()) && bool::from(p.is_some()));
                    assert!(words_eq(&bwords::<L>(&o.unwrap()), &l) && words_eq(&bwords::<L>(&p.unwrap()), &r));
                }
                5 => {
                    // single-bit and sub-limb helpers used by division and inversion
                    let (d, c) = x.overflowing_shl1();
                    let one = bwords::<L>(&x.overflowing_shl(1).0);
                    assert!(words_eq(&bwords::<L>(&d), &one) && c.0 == xw[L - 1] >> (Limb::BITS - 1));
                    let mut y = x.clone();
                    let c2 = y.shl1_assign();
                    assert!(words_eq(&bwords::<L>(&y), &one) && c2.0 == c.0);
                    let h = bwords::<L>(&x.overflowing_shr(1).0);
                    assert!(words_eq(&bwords::<L>(&x.shr1()), &h));
                    let mut z = x.clone();
                    z.shr1_assign();
                    assert!(words_eq(&bwords::<L>(&z), &h));
                }
                _ => {
                    kani::assume(s < Limb::BITS);
                    let (d, c) = x.shl_limb(s);
                    assert!(words_eq(&bwords::<L>(&d), &l));
                    assert!(c.0 == if s == 0 { 0 } else { xw[L - 1] >> (Limb::BITS - s) });
                }
            }
            kani::cover!(s == bits - 1 || (which == 6 && s == Limb::BITS - 1));
            core::mem::forget(x);
        }
    };
}
//@ name=c05_boxed3_shift_named prop=C05,C11,C15 tier=quick profile=k64 funcs="BoxedUint::shl,BoxedUint::shr" bound="BoxedUint 3 limbs, all values, every shift < 192 (shl_limb: < 64): equal to the overflowing form, no panic" free_bits=200
boxed_shift_forms!(c05_boxed3_shift_named, 0);
//@ name=c05_boxed3_shift_assign prop=C05,C11,C15 tier=quick profile=k64 funcs="BoxedUint::shl_assign,BoxedUint::shr_assign" bound="BoxedUint 3 limbs, all values, every shift < 192 (shl_limb: < 64): equal to the overflowing form, no panic" free_bits=200
boxed_shift_forms!(c05_boxed3_shift_assign, 1);
//@ name=c05_boxed3_shift_ops prop=C05,C11,C15 tier=quick profile=k64 funcs="Shl<u32/i32/usize> for BoxedUint and &BoxedUint,Shr<u32/i32/usize>" bound="BoxedUint 3 limbs, all values, every shift < 192 (shl_limb: < 64): equal to the overflowing form, no panic" free_bits=200
boxed_shift_forms!(c05_boxed3_shift_ops, 2);
//@ name=c05_boxed3_shift_opassign prop=C05,C11,C15 tier=quick profile=k64 funcs="ShlAssign<u32>,ShrAssign<usize> for BoxedUint" bound="BoxedUint 3 limbs, all values, every shift < 192 (shl_limb: < 64): equal to the overflowing form, no panic" free_bits=200
boxed_shift_forms!(c05_boxed3_shift_opassign, 3);
//@ name=c05_boxed3_shift_traits prop=C05,C11,C15 tier=quick profile=k64 funcs="WrappingShl,WrappingShr,ShlVartime,ShrVartime for BoxedUint" bound="BoxedUint 3 limbs, all values, every shift < 192 (shl_limb: < 64): equal to the overflowing form, no panic" free_bits=200
boxed_shift_forms!(c05_boxed3_shift_traits, 4);
//@ name=c05_boxed3_shift_one prop=C05,C11,C15 tier=quick profile=k64 funcs="BoxedUint::overflowing_shl1,shl1_assign,shr1,shr1_assign" bound="BoxedUint 3 limbs, all values, every shift < 192 (shl_limb: < 64): equal to the overflowing form, no panic" free_bits=200
boxed_shift_forms!(c05_boxed3_shift_one, 5);
//@ name=c05_boxed3_shift_limb prop=C05,C11,C15 tier=quick profile=k64 funcs="BoxedUint::shl_limb" bound="BoxedUint 3 limbs, all values, every shift < 192 (shl_limb: < 64): equal to the overflowing form, no panic" free_bits=200
boxed_shift_forms!(c05_boxed3_shift_limb, 6);

//@ prop=C05,C11 tier=quick profile=k64 funcs="BoxedUint::shl,BoxedUint::shr,Shl/Shr for BoxedUint" bound="BoxedUint 2 limbs, all values, every shift >= 128: the panicking forms must panic" free_bits=161 must_panic=1
#[kani::proof]
#[kani::unwind(10)]
fn c05_boxed2_shift_overflow_panics() {
    let xw: [Word; 2] = kani::any();
    let x = boxed_from(&xw);
    let s: u32 = kani::any();
    kani::assume(s >= 128);
    let which: u8 = kani::any();
    match which {
        0 => core::mem::forget(x.shl(s)),
        1 => core::mem::forget(x.shr(s)),
        2 => core::mem::forget(&x << s),
        _ => core::mem::forget(&x >> s),
    }
    must_have_panicked();
}

macro_rules! boxed_bits {
    ($name:ident, $L:expr) => {
        #[kani::proof]
        #[kani::unwind(10)]
        fn $name() {
            const L: usize = $L;
            let bits = (L as u32) * Limb::BITS;
            let xw: [Word; L] = kani::any();
            let x = boxed_from(&xw);
            let f: Uint<L> = Uint::from_words(xw);
            // fixed-width results are checked against the binary expansion in c05_uint*_bits
            assert!(x.bits() == f.bits() && x.bits_vartime() == f.bits() && BitOps::bits(&x) == f.bits());
            assert!(x.leading_zeros() == f.leading_zeros() && BitOps::leading_zeros(&x) == f.leading_zeros());
            assert!(x.trailing_zeros() == f.trailing_zeros() && x.trailing_zeros_vartime() == f.trailing_zeros());
            assert!(x.trailing_ones() == f.trailing_ones() && x.trailing_ones_vartime() == f.trailing_ones());
            assert!(x.bits_precision() == bits && BitOps::bytes_precision(&x) == L * Limb::BYTES);
            // direct: the highest set bit
            let nb = x.bits();
            assert!(nb <= bits && (nb == 0) == is_zero_words(&xw));
            if nb > 0 {
                assert!(bit_of(&xw, nb - 1));
            }
            let j: u32 = kani::any();
            kani::assume(j < bits);
            assert!(!(j >= nb) || !bit_of(&xw, j));
            let i: u32 = kani::any();
            let want = i < bits && bit_of(&xw, i);
            assert!(bool::from(x.bit(i)) == want);
            if i < bits {
                assert!(x.bit_vartime(i) == want);
                let bv: bool = kani::any();
                let mut y = x.clone();
                y.set_bit(i, subtle::Choice::from(bv as u8));
                let mut z = x.clone();
                z.set_bit_vartime(i, bv);
                let yw = bwords::<L>(&y);
                assert!(words_eq(&yw, &bwords::<L>(&z)));
                assert!(bit_of(&yw, j) == if j == i { bv } else { bit_of(&xw, j) });
            }
            kani::cover!(nb == bits);
            kani::cover!(nb == Limb::BITS + 1 && L > 1);
            kani::cover!(i == bits);
            core::mem::forget(x);
        }
    };
}
//@ name=c05_boxed2_bits prop=C05,C11,C15 tier=quick profile=k64 funcs="BoxedUint::bits,BoxedUint::bits_vartime,BoxedUint::leading_zeros,BoxedUint::trailing_zeros(_vartime),BoxedUint::trailing_ones(_vartime),BoxedUint::bit,BoxedUint::bit_vartime,BoxedUint::set_bit,BoxedUint::set_bit_vartime,BitOps for BoxedUint" bound="BoxedUint 2 limbs, all values, every u32 bit index" free_bits=194
boxed_bits!(c05_boxed2_bits, 2);
//@ name=c05_boxed3_bits prop=C05,C11,C15 tier=quick profile=k64 funcs="BoxedUint::bits,BoxedUint::bits_vartime,BoxedUint::leading_zeros,BoxedUint::trailing_zeros(_vartime),BoxedUint::trailing_ones(_vartime),BoxedUint::bit,BoxedUint::bit_vartime,BoxedUint::set_bit,BoxedUint::set_bit_vartime,BitOps for BoxedUint" bound="BoxedUint 3 limbs, all values, every u32 bit index" free_bits=258
boxed_bits!(c05_boxed3_bits, 3);

macro_rules! boxed_bitops {
    ($name:ident, $A:expr, $B:expr, $M:expr) => {
        #[kani::proof]
        #[kani::unwind(10)]
        fn $name() {
            const A: usize = $A;
            const B: usize = $B;
            const M: usize = $M; // max(A, B)
            let aw: [Word; A] = kani::any();
            let bw: [Word; B] = kani::any();
            let a = boxed_from(&aw);
            let b = boxed_from(&bw);
            let (az, bz) = (bwords::<M>(&a), bwords::<M>(&b));
            let i: usize = kani::any();
            kani::assume(i < M);
            let which: u8 = kani::any();
            match which {
                0 => {
                    // named forms: value-exact at the wider precision
                    let (x, o, e) = (a.bitand(&b), a.bitor(&b), a.bitxor(&b));
                    assert!(x.nlimbs() == M && o.nlimbs() == M && e.nlimbs() == M);
                    assert!(bword(&x, i) == az[i] & bz[i] && bword(&o, i) == az[i] | bz[i] && bword(&e, i) == az[i] ^ bz[i]);
                    let n = a.not();
                    assert!(n.nlimbs() == A && (i >= A || bword(&n, i) == !aw[i]));
                    let (wx, wo, we) = (a.wrapping_and(&b), a.wrapping_or(&b), a.wrapping_xor(&b));
                    assert!(bword(&wx, i) == az[i] & bz[i] && bword(&wo, i) == az[i] | bz[i] && bword(&we, i) == az[i] ^ bz[i]);
                    let (cx, co, ce) = (a.checked_and(&b), a.checked_or(&b), a.checked_xor(&b));
                    assert!(bool::from(cx.is_some()) && bool::from(co.is_some()) && bool::from(ce.is_some()));
                    assert!(bword(&cx.unwrap(), i) == az[i] & bz[i] && bword(&co.unwrap(), i) == az[i] | bz[i] && bword(&ce.unwrap(), i) == az[i] ^ bz[i]);
                }
                1 => {
                    let (x, o, e) = (&a & &b, &a | &b, &a ^ &b);
                    assert!(x.nlimbs() == M && o.nlimbs() == M && e.nlimbs() == M);
                    assert!(bword(&x, i) == az[i] & bz[i] && bword(&o, i) == az[i] | bz[i] && bword(&e, i) == az[i] ^ bz[i]);
                    let (x, o, e) = (a.clone() & b.clone(), a.clone() | &b, &a ^ b.clone());
                    assert!(bword(&x, i) == az[i] & bz[i] && bword(&o, i) == az[i] | bz[i] && bword(&e, i) == az[i] ^ bz[i]);
                    let n = !a.clone();
                    assert!(i >= A || bword(&n, i) == !aw[i]);
                }
                2 => {
                    // assigning forms: the value of a op b on every limb the result has; no limb of the
                    // true result that the receiver can hold may be wrong
                    let mut x = a.clone();
                    x &= &b;
                    let mut e = a.clone();
                    e ^= &b;
                    let mut o = a.clone();
                    o |= &b;
                    assert!(x.nlimbs() >= A && e.nlimbs() >= A && o.nlimbs() >= A);
                    assert!(i >= x.nlimbs() || bword(&x, i) == az[i] & bz[i]);
                    assert!(i >= e.nlimbs() || bword(&e, i) == az[i] ^ bz[i]);
                    assert!(i >= o.nlimbs() || bword(&o, i) == az[i] | bz[i]);
                    // a & b always fits the receiver: no set bit may be lost or invented
                    assert!(i < x.nlimbs() || az[i] & bz[i] == 0);
                }
                _ => {
                    let mut x = a.clone();
                    x &= b.clone();
                    let mut e = a.clone();
                    e ^= b.clone();
                    let mut o = a.clone();
                    o |= b.clone();
                    assert!(i >= x.nlimbs() || bword(&x, i) == az[i] & bz[i]);
                    assert!(i >= e.nlimbs() || bword(&e, i) == az[i] ^ bz[i]);
                    assert!(i >= o.nlimbs() || bword(&o, i) == az[i] | bz[i]);
                    let l: Word = kani::any();
                    let y = a.bitand_limb(Limb(l));
                    assert!(y.nlimbs() == A && (i >= A || bword(&y, i) == aw[i] & l));
                }
            }
            kani::cover!(which == 2 && i == M - 1);
            core::mem::forget((a, b));
        }
    };
}
//@ name=c05_boxed_bitops_2_2 prop=C05,C11 tier=quick profile=k64 funcs="BoxedUint::bitand,bitor,bitxor,not,wrapping_and/or/xor,checked_and/or/xor,bitand_limb,BitAnd/BitOr/BitXor/Not (4 forms),BitAndAssign/BitOrAssign/BitXorAssign (2 forms),map_limbs" bound="BoxedUint 2 and 2 limbs, all values, symbolic limb index" free_bits=330
boxed_bitops!(c05_boxed_bitops_2_2, 2, 2, 2);
//@ name=c05_boxed_bitops_3_1 prop=C05,C11 tier=quick profile=k64 funcs="BoxedUint::bitand,bitor,bitxor,not,wrapping_*,checked_*,BitAnd/BitOr/BitXor (4 forms),BitAndAssign/BitOrAssign/BitXorAssign (2 forms) with a narrower right-hand side" bound="BoxedUint 3 and 1 limbs, all values, symbolic limb index" free_bits=330
boxed_bitops!(c05_boxed_bitops_3_1, 3, 1, 3);
//@ name=c05_boxed_bitops_1_3 prop=C05,C11 tier=quick profile=k64 funcs="BoxedUint::bitand,bitor,bitxor,not,wrapping_*,checked_*,BitAnd/BitOr/BitXor (4 forms),BitAndAssign/BitOrAssign/BitXorAssign (2 forms) with a wider right-hand side" bound="BoxedUint 1 and 3 limbs, all values, symbolic limb index" free_bits=330
boxed_bitops!(c05_boxed_bitops_1_3, 1, 3, 3);

//@ prop=C05,C20,C11 tier=quick profile=k64 funcs="BitOps::log2_bits (default method),BitOps::bits_precision,BitOps::bytes_precision" bound="BoxedUint of 1..=8, 13, 15 limbs and Uint<1..=7>: floor(log2(bits_precision)) exactly (the loop bound of the constant-time boxed sqrt)" free_bits=0 core=C20
#[kani::proof]
#[kani::unwind(20)]
fn c05_log2_bits_all_small_widths() {
    fn want(bits: u32) -> u32 {
        let mut l = 0;
        while (1u32 << (l + 1)) <= bits {
            l += 1;
        }
        l
    }
    // concrete limb counts (a symbolic allocation size makes counterexample generation run out of memory)
    let ns: [usize; 10] = [1, 2, 3, 4, 5, 6, 7, 8, 13, 15];
    let mut k = 0;
    while k < 10 {
        let n = ns[k];
        let x = BoxedUint::zero_with_precision(64 * n as u32);
        assert!(x.nlimbs() == n && BitOps::log2_bits(&x) == want(64 * n as u32));
        assert!(BitOps::bits_precision(&x) == 64 * n as u32 && BitOps::bytes_precision(&x) == 8 * n);
        core::mem::forget(x);
        k += 1;
    }
    assert!(BitOps::log2_bits(&Uint::<1>::ZERO) == 6 && BitOps::log2_bits(&Uint::<2>::ZERO) == 7 && BitOps::log2_bits(&Uint::<3>::ZERO) == 7);
    assert!(BitOps::log2_bits(&Uint::<5>::ZERO) == 8 && BitOps::log2_bits(&Uint::<6>::ZERO) == 8 && BitOps::log2_bits(&Uint::<7>::ZERO) == 8);
}
