//! C07 (multiplicative part) — mul_mod / mul_mod_vartime / mul_mod_special.  k8, oracle in u64.
use crate::__verif_common::*;
use crate::{Limb, MulMod, NonZero, Uint, Word};

//@ prop=C07,C11,C15 tier=quick profile=k8 funcs="Uint::mul_mod_vartime,Uint::mul_mod_special (LIMBS==1: mul_rem),MulMod,Uint::rem_wide_vartime" bound="u8 words, Uint<1>: p = S(3) with free top bit, every a,b < p; special-modulus form for the same p = 2^8 - c" free_bits=21 core=C15
#[kani::proof]
#[kani::unwind(8)]
fn c07_k8_mul_mod_1() {
    let p: Uint<1> = Uint::new([Limb(shaped_signed_top(3))]);
    let a: Uint<1> = any_uint();
    let b: Uint<1> = any_uint();
    let (pv, av, bv) = (to_u64(&p) as u32, to_u64(&a) as u32, to_u64(&b) as u32);
    kani::assume(pv != 0 && av < pv && bv < pv);
    let pz = NonZero::new(p).unwrap();
    let r = to_u64(&a.mul_mod_vartime(&b, &pz)) as u32;
    // r = a*b mod p  <=>  r < p and a*b = k*p + r with k <= a*b
    assert!(r < pv);
    let k: u32 = kani::any();
    kani::assume(k <= 0xff && k * pv <= av * bv && av * bv - k * pv < pv);
    assert!(av * bv - k * pv == r);
    assert!(to_u64(&MulMod::mul_mod(&a, &b, &p)) as u32 == r);
    // special modulus for this p when it has the form 2^8 - c
    let c = (0x100 - pv) as Word;
    let rs = to_u64(&a.mul_mod_special(&b, Limb(c))) as u32;
    assert!(rs == r);
    kani::cover!(pv == 1);
    kani::cover!(pv == 0xff && av == 0xfe && bv == 0xfe);
    kani::cover!(r == 0 && av != 0 && bv != 0);
}

//@ prop=C07,C11,C15 tier=quick profile=k8 funcs="Uint::mul_mod_vartime,Uint::mul_mod (Montgomery route),Uint::mul_mod_special,MulMod" bound="u8 words, Uint<2>: p=[S(2)|1, S(2)] odd, a,b limbs S(1)" free_bits=14
#[kani::proof]
#[kani::unwind(20)]
fn c07_k8_mul_mod_2() {
    let p = Uint::<2>::new([Limb(shaped_word(2) | 1), Limb(shaped_word(2))]);
    let a: Uint<2> = shaped(1);
    let b: Uint<2> = shaped(1);
    let (pv, av, bv) = (to_u64(&p), to_u64(&a), to_u64(&b));
    kani::assume(av < pv && bv < pv);
    let pz = NonZero::new(p).unwrap();
    let r = to_u64(&a.mul_mod_vartime(&b, &pz));
    assert!(r < pv);
    let k: u64 = kani::any();
    kani::assume(k <= 0xffff && k * pv <= av * bv && av * bv - k * pv < pv);
    assert!(av * bv - k * pv == r);
    // constant-time route through Montgomery form (p odd)
    assert!(to_u64(&a.mul_mod(&b, &pz)) == r);
    kani::cover!(pv > 0xff00);
    kani::cover!(pv < 0x100);
}

//@ prop=C07,C11 tier=quick profile=k8 funcs="Uint::mul_mod_special,mac_by_limb" bound="u8 words, Uint<2>: p = 2^16 - c for c = S(3) != 0; a,b with limbs S(2), < p" free_bits=16 core=C11
#[kani::proof]
#[kani::unwind(8)]
fn c07_k8_mul_mod_special_2() {
    let c: Word = shaped_word(3);
    kani::assume(c != 0);
    let pv: u64 = 0x10000 - c as u64;
    let a: Uint<2> = shaped(2);
    let b: Uint<2> = shaped(2);
    let (av, bv) = (to_u64(&a), to_u64(&b));
    kani::assume(av < pv && bv < pv);
    let r = to_u64(&a.mul_mod_special(&b, Limb(c)));
    assert!(r < pv);
    let k: u64 = kani::any();
    kani::assume(k <= 0xffff && k * pv <= av * bv && av * bv - k * pv < pv);
    assert!(av * bv - k * pv == r);
    kani::cover!(c == 0xff);
    kani::cover!(c == 1 && av == pv - 1 && bv == pv - 1);
}
