//! C10 (boxed safegcd, linear parts) — k64.  Child of `modular::safegcd::boxed`.
//! The divsteps iteration is NOT decided (DESIGN.md C10); these are its cut points and conversions.
use super::{BoxedSafeGcdInverter, BoxedUnsatInt};
use crate::__verif_common::boxed::*;
use crate::__verif_common::*;
use crate::{BoxedUint, Word};
use alloc::boxed::Box;
use subtle::Choice;

const M: u64 = (1u64 << 62) - 1;

fn mk3(v: i128) -> BoxedUnsatInt {
    let u = v as u128;
    let top = ((u >> 124) as u64 & 0xf) | if v < 0 { M & !0xf } else { 0 };
    BoxedUnsatInt(Box::new([(u as u64) & M, ((u >> 62) as u64) & M, top]))
}
fn sval3(x: &BoxedUnsatInt) -> i128 {
    let lo = (x.0[0] as u128) | ((x.0[1] as u128) << 62) | (((x.0[2] & 0xf) as u128) << 124);
    lo as i128
}

//@ prop=C10,C11,C15 tier=quick profile=k64 funcs="BoxedSafeGcdInverter::norm,BoxedUnsatInt::conditional_add,BoxedUnsatInt::neg,BoxedUnsatInt::is_negative" bound="3 unsaturated limbs: every odd 64-bit modulus M, every d in the documented interval (-2M, M), both values of negate: the result is the representative in [0, M) of +-d" free_bits=194 assumes="cut point: d in (-2M, M) as documented for norm"
#[kani::proof]
#[kani::unwind(8)]
fn c10_norm_boxed_1() {
    let m: u64 = kani::any();
    kani::assume(m & 1 == 1);
    let mi = m as i128;
    let v: i128 = kani::any();
    kani::assume(-2 * mi < v && v < mi);
    let inv = BoxedSafeGcdInverter { modulus: mk3(mi), adjuster: mk3(1), inverse: 0 };
    let neg: bool = kani::any();
    let r = inv.norm(mk3(v), Choice::from(neg as u8));
    assert!(r.0.len() == 3 && r.0[0] <= M && r.0[1] <= M && r.0[2] == 0);
    let rv = sval3(&r);
    let sv = if neg { -v } else { v };
    assert!(0 <= rv && rv < mi);
    assert!(rv == sv || rv == sv + mi || rv == sv + 2 * mi || rv == sv - mi);
    kani::cover!(v <= -mi && !neg);
    kani::cover!(v <= -mi && neg);
    kani::cover!(v > 0 && neg);
    core::mem::forget((inv, r));
}

//@ prop=C10,C11,C15 tier=quick profile=k64 funcs="BoxedUnsatInt::from(&BoxedUint),BoxedUnsatInt::from_uint_widened,BoxedUnsatInt::to_uint,BoxedUnsatInt::widen,BoxedUnsatInt::zero" bound="BoxedUint 1 and 2 limbs: every value: 62-bit limbs, value preserved, round trip at the original precision" free_bits=192
#[kani::proof]
#[kani::unwind(8)]
fn c10_boxed_unsat_convert_roundtrip() {
    let aw: [Word; 1] = kani::any();
    let a = boxed_from(&aw);
    let u = BoxedUnsatInt::from(&a);
    assert!(u.0.len() == 3 && u.0[0] <= M && u.0[1] <= M && u.0[2] == 0);
    assert!((u.0[0] as u128) | ((u.0[1] as u128) << 62) == aw[0] as u128);
    let back = u.to_uint(64);
    assert!(back.nlimbs() == 1 && bword(&back, 0) == aw[0]);
    let bw: [Word; 2] = kani::any();
    let b = boxed_from(&bw);
    let v = BoxedUnsatInt::from(&b);
    let bv = (bw[0] as u128) | ((bw[1] as u128) << 64);
    assert!(v.0.len() == 4 && v.0[0] <= M && v.0[1] <= M && v.0[2] <= M && v.0[3] == 0);
    assert!((v.0[0] as u128) | ((v.0[1] as u128) << 62) == bv & ((1u128 << 124) - 1) && v.0[2] as u128 == bv >> 124);
    let back2 = v.to_uint(128);
    assert!(back2.nlimbs() == 2 && bword(&back2, 0) == bw[0] && bword(&back2, 1) == bw[1]);
    assert!(!bool::from(u.is_negative()) && !bool::from(v.is_negative()));
    core::mem::forget((a, b, u, v, back, back2));
}

// ---------------------------------------------------------------- sizing of the work integers and the iteration count call-site
//@@ extract file=modular/safegcd/boxed.rs from="iterations(" to=" {\n        (delta, matrix)" sig="pub(super) fn __verif_boxed_divsteps_count(f_0: &BoxedUnsatInt, g: &mut BoxedUnsatInt) -> usize" ret=""

//@ prop=C10,C11 tier=quick profile=k64 funcs="safegcd::boxed::unsat_nlimbs_for_sat_nlimbs,safegcd_nlimbs!" bound="every saturated limb count 1..=65536 (precisions up to 4 Mbit): the work integers have the documented headroom bits <= 62*nlimbs - 64 (src/macros.rs), and the fixed-size macro gives the same count" free_bits=17
#[kani::proof]
fn c10_boxed_unsat_nlimbs_headroom() {
    let n: usize = kani::any();
    kani::assume(1 <= n && n <= 65536);
    let bits = n * 64;
    let u = super::unsat_nlimbs_for_sat_nlimbs(n);
    assert!(u * 62 >= bits + 64);
    assert!(safegcd_nlimbs!(bits) * 62 >= bits + 64);
    assert!(u == safegcd_nlimbs!(bits)); // boxed and fixed routes size their work integers alike (C15)
    kani::cover!(n == 31);
}

//@ prop=C10 tier=quick profile=k64 funcs="safegcd::boxed::divsteps (slice: the loop bound expression),safegcd::iterations,BoxedUnsatInt::bits" bound="3 unsaturated limbs: every pair of non-negative well-formed f_0, g: the loop bound is at least the Bernstein-Yang count for max(bits(f_0), bits(g)); the divstep loop body itself is not decided" free_bits=372 assumes="cut point: f_0, g well-formed (limbs < 2^62) and non-negative"
#[kani::proof]
#[kani::unwind(8)]
fn c10_boxed_divsteps_count_covers_both_operands() {
    let fl: [u64; 3] = kani::any();
    let gl: [u64; 3] = kani::any();
    let mut i = 0;
    while i < 3 {
        kani::assume(fl[i] <= M && gl[i] <= M);
        i += 1;
    }
    kani::assume(fl[2] >> 61 == 0 && gl[2] >> 61 == 0);
    let f = BoxedUnsatInt(Box::new(fl));
    let mut g = BoxedUnsatInt(Box::new(gl));
    let (fb, gb) = (f.bits(), g.bits());
    let m = super::__verif_boxed_divsteps_count(&f, &mut g) as u64;
    let d = if fb > gb { fb } else { gb } as u64;
    let num = 49 * d + if d < 46 { 80 } else { 57 };
    assert!(17 * (m + 1) > num);
    kani::cover!(gb > fb && fb > 62);
    core::mem::forget((f, g));
}

//@ prop=C10 tier=thorough profile=k64 funcs="safegcd::boxed::divsteps (slice: the loop bound expression),safegcd::iterations,BoxedUnsatInt::bits" bound="6 unsaturated limbs (the work width of a 256-bit operand): every pair of non-negative well-formed f_0, g: loop bound >= the Bernstein-Yang count for max(bits(f_0), bits(g)); the divstep loop body itself is not decided" free_bits=744 assumes="cut point: f_0, g well-formed (limbs < 2^62) and non-negative"
#[kani::proof]
#[kani::unwind(8)]
fn c10_boxed_divsteps_count_covers_both_operands_6() {
    let fl: [u64; 6] = kani::any();
    let gl: [u64; 6] = kani::any();
    let mut i = 0;
    while i < 6 {
        kani::assume(fl[i] <= M && gl[i] <= M);
        i += 1;
    }
    kani::assume(fl[5] >> 61 == 0 && gl[5] >> 61 == 0);
    let f = BoxedUnsatInt(Box::new(fl));
    let mut g = BoxedUnsatInt(Box::new(gl));
    let (fb, gb) = (f.bits(), g.bits());
    let m = super::__verif_boxed_divsteps_count(&f, &mut g) as u64;
    let d = if fb > gb { fb } else { gb } as u64;
    let num = 49 * d + if d < 46 { 80 } else { 57 };
    assert!(17 * (m + 1) > num);
    kani::cover!(gb > fb && fb > 256);
    core::mem::forget((f, g));
}
