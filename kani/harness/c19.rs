//! C19 — random sampling: range, exact rejection-sampling semantics (hence uniformity), width independence.
//! k64.  The RNG is a stub: a bounded symbolic tape of outputs followed by zeros (every sampler accepts 0).
use crate::__verif_common::boxed::*;
use crate::__verif_common::tape::{Tape, TAPE};
use crate::__verif_common::*;
use crate::{BoxedUint, Limb, NonZero, Random, RandomBits, RandomBitsError, RandomMod, Uint, Word};

fn mask_for(hi: Word) -> Word {
    if hi == 0 { 0 } else { Word::MAX >> hi.leading_zeros() }
}

/// Reference model of rejection sampling below `modulus` (2 limbs) over the word tape:
/// candidates are (hi & mask, lo) in tape order; the first candidate < modulus wins.
/// Returns (value words, words consumed).  Mirrors the documented algorithm, not the code:
/// a candidate whose top word already exceeds the modulus' top word consumes one word only.
fn ref_random_mod2(t: &[u64; TAPE], len: usize, m: &[Word; 2]) -> ([Word; 2], usize) {
    let get = |i: usize| if i < len { t[i] } else { 0 };
    let two = m[1] != 0; // number of significant limbs
    let top = if two { m[1] } else { m[0] };
    let mask = mask_for(top);
    let mut pos = 0;
    let mut tries = 0;
    while tries <= TAPE + 1 {
        let hi = get(pos) & mask;
        pos += 1;
        if hi <= top {
            if two {
                let lo = get(pos);
                pos += 1;
                if hi < top || lo < m[0] {
                    return ([lo, hi], pos);
                }
            } else if hi < top {
                return ([hi, 0], pos);
            }
        }
        tries += 1;
    }
    ([0, 0], pos)
}

//@ prop=C19,C11 tier=quick profile=k64 funcs="Uint::random_mod,Uint::try_random_mod,random_mod_core" bound="Uint<2>: every non-zero modulus, every RNG stream of 4 symbolic 64-bit words then zeros: value < modulus, equal to the first candidate below the modulus, same number of words consumed" free_bits=384 stubs="RNG = bounded symbolic tape (4 words) then zeros"
#[kani::proof]
#[kani::unwind(10)]
fn c19_random_mod_uint2() {
    let m: Uint<2> = any_uint();
    let mw = words_of(&m);
    kani::assume(!is_zero_words(&mw));
    let mut t = Tape::any(4, 0);
    let words = t.w;
    let r = Uint::<2>::random_mod(&mut t, &NonZero::new(m).unwrap());
    let rw = words_of(&r);
    assert!(ref_lt(&rw, &mw));
    let (want, used) = ref_random_mod2(&words, 4, &mw);
    assert!(words_eq(&rw, &want));
    assert!(t.pos == used);
    let mut t2 = Tape::from_words(&words[..4], 0);
    let r2 = Uint::<2>::try_random_mod(&mut t2, &NonZero::new(m).unwrap()).unwrap();
    assert!(r2 == r && t2.pos == t.pos);
    kani::cover!(used == 2 && mw[1] != 0);
    kani::cover!(used >= 4);
    kani::cover!(mw[1] == 1 && rw[1] == 1); // top limb 2^0 is reachable
    kani::cover!(mw[1] == 0 && used == 1);
}

//@ prop=C19 tier=quick profile=k64 funcs="Uint::random_mod,random_mod_core" bound="Uint<2> and Uint<3>: every non-zero modulus and every v < modulus: the stream made of v's words returns v (every admissible value is reachable: surjectivity witness for uniformity)" free_bits=640 stubs="RNG = tape holding the words of v"
#[kani::proof]
#[kani::unwind(10)]
fn c19_random_mod_surjective() {
    let m: Uint<2> = any_uint();
    let v: Uint<2> = any_uint();
    let (mw, vw) = (words_of(&m), words_of(&v));
    kani::assume(ref_lt(&vw, &mw));
    // stream order: top significant word first, then the lower limbs in ascending order
    let mut t = if mw[1] != 0 { Tape::from_words(&[vw[1], vw[0]], 0) } else { Tape::from_words(&[vw[0]], 0) };
    let r = Uint::<2>::random_mod(&mut t, &NonZero::new(m).unwrap());
    assert!(r == v);
    let m3: Uint<3> = any_uint();
    let v3: Uint<3> = any_uint();
    let (mw3, vw3) = (words_of(&m3), words_of(&v3));
    kani::assume(ref_lt(&vw3, &mw3) && mw3[2] != 0);
    let mut t3 = Tape::from_words(&[vw3[2], vw3[0], vw3[1]], 0);
    let r3 = Uint::<3>::random_mod(&mut t3, &NonZero::new(m3).unwrap());
    assert!(r3 == v3);
    kani::cover!(mw[1].is_power_of_two() && vw[1] == mw[1]);
}

//@ prop=C19,C11 tier=quick profile=k64 funcs="Limb::try_random_mod,Limb::random_mod" bound="Limb: every non-zero modulus, every byte stream of 6 symbolic draws then zeros: value < modulus and equal to the first masked candidate below the modulus" free_bits=448 stubs="RNG = bounded symbolic tape, one tape word per byte"
#[kani::proof]
#[kani::unwind(12)]
fn c19_random_mod_limb() {
    let m: Word = kani::any();
    kani::assume(m != 0);
    let nbits = (64 - m.leading_zeros()) as usize;
    let nbytes = (nbits + 7) / 8;
    // keep the number of attempts inside the tape: at most 6 bytes drawn per harness instance
    kani::assume(nbytes <= 3);
    let mut t = Tape::any(6, 0);
    let words = t.w;
    let r = Limb::try_random_mod(&mut t, &NonZero::new(Limb(m)).unwrap()).unwrap();
    assert!(r.0 < m);
    // reference: attempts of nbytes bytes, little endian, top byte masked to the modulus' bit length
    let mask: u8 = 0xff >> (8 * nbytes - nbits);
    let get = |i: usize| if i < 6 { words[i] as u8 } else { 0 };
    let mut pos = 0;
    let mut want: Word = 0;
    let mut found = false;
    let mut tries = 0;
    while tries < 7 && !found {
        let mut v: Word = 0;
        let mut j = 0;
        while j < nbytes {
            let b = if j == nbytes - 1 { get(pos + j) & mask } else { get(pos + j) };
            v |= (b as Word) << (8 * j);
            j += 1;
        }
        pos += nbytes;
        if v < m {
            want = v;
            found = true;
        }
        tries += 1;
    }
    assert!(found && r.0 == want && t.pos == pos);
    kani::cover!(tries > 1);
    kani::cover!(nbytes == 3);
}

//@ prop=C19,C11 tier=quick profile=k64 funcs="Uint::try_random_bits,Uint::try_random_bits_with_precision,random_bits_core" bound="Uint<2>: every bit_length (u32) and every precision argument, every byte stream of 16 draws: error exactly as documented, else value < 2^bit_length built from the stream bytes in little-endian order with the documented 4-byte rule for the last word" free_bits=1100 stubs="RNG = symbolic tape, one tape word per byte" core=C11
#[kani::proof]
#[kani::unwind(20)]
fn c19_random_bits_uint2() {
    let bit_length: u32 = kani::any();
    let precision: u32 = kani::any();
    let mut bytes = [0u8; 16];
    let mut t = ByteTape { b: kani::any(), pos: 0 };
    let src = t.b;
    let r = Uint::<2>::try_random_bits_with_precision(&mut t, bit_length, precision);
    match r {
        Err(RandomBitsError::BitsPrecisionMismatch { bits_precision, integer_bits }) => {
            assert!(precision != 128 && bits_precision == precision && integer_bits == 128);
        }
        Err(RandomBitsError::BitLengthTooLarge { bit_length: bl, bits_precision }) => {
            assert!(precision == 128 && bit_length > 128 && bl == bit_length && bits_precision == 128);
        }
        Err(_) => assert!(false),
        Ok(v) => {
            assert!(precision == 128 && bit_length <= 128);
            let val = to_u128(&v);
            assert!(bit_length == 128 || val >> bit_length == 0);
            // reference: full limbs take 8 bytes each; the last (partial) limb takes 4 bytes when
            // 0 < bit_length % 64 <= 32, else 8; masked to the remaining bits
            let nl = ((bit_length + 63) / 64) as usize;
            let partial = bit_length % 64;
            let mut want: u128 = 0;
            let mut pos = 0;
            let mut i = 0;
            while i < nl {
                let last = i + 1 == nl;
                let take = if last && partial > 0 && partial <= 32 { 4 } else { 8 };
                let mut w: u64 = 0;
                let mut j = 0;
                while j < take {
                    w |= (src[pos + j] as u64) << (8 * j);
                    j += 1;
                }
                pos += take;
                if last && partial != 0 {
                    w &= u64::MAX >> (64 - partial);
                }
                want |= (w as u128) << (64 * i);
                i += 1;
            }
            assert!(val == want);
            assert!(t.pos == pos); // bytes consumed
        }
    }
    let _ = &mut bytes;
    kani::cover!(bit_length == 0 && precision == 128);
    kani::cover!(bit_length == 33 && precision == 128);
    kani::cover!(bit_length == 128 && precision == 128);
    kani::cover!(bit_length == 129 && precision == 128);
}

/// byte-granular RNG stub: 16 symbolic bytes, then zeros
struct ByteTape {
    b: [u8; 16],
    pos: usize,
}
impl rand_core::RngCore for ByteTape {
    fn next_u32(&mut self) -> u32 {
        let mut d = [0u8; 4];
        self.fill_bytes(&mut d);
        u32::from_le_bytes(d)
    }
    fn next_u64(&mut self) -> u64 {
        let mut d = [0u8; 8];
        self.fill_bytes(&mut d);
        u64::from_le_bytes(d)
    }
    fn fill_bytes(&mut self, d: &mut [u8]) {
        for x in d.iter_mut() {
            *x = if self.pos < 16 { self.b[self.pos] } else { 0 };
            self.pos += 1;
        }
    }
}

macro_rules! boxed_random_bits {
    ($name:ident, $bl:expr, $prec:expr) => {
        #[kani::proof]
        #[kani::unwind(20)]
        fn $name() {
            let mut t = ByteTape { b: kani::any(), pos: 0 };
            let src = t.b;
            let r = BoxedUint::try_random_bits_with_precision(&mut t, $bl, $prec);
            if $bl > $prec {
                match r {
                    Err(RandomBitsError::BitLengthTooLarge { bit_length, bits_precision }) => assert!(bit_length == $bl && bits_precision == $prec),
                    _ => assert!(false),
                }
            } else {
                let v = r.unwrap();
                assert!(v.bits_precision() >= $prec && v.bits_precision() < $prec + 64 + ($prec == 0) as u32 * 64);
                // same stream -> same value and same number of bytes as the fixed-width integer
                if $bl <= 128 {
                    let mut t2 = ByteTape { b: src, pos: 0 };
                    let f = Uint::<2>::try_random_bits(&mut t2, $bl).unwrap();
                    let fw = words_of(&f);
                    assert!(bword(&v, 0) == fw[0] && bword(&v, 1) == fw[1] && bword(&v, 2) == 0);
                    assert!(t2.pos == t.pos);
                }
                core::mem::forget(v);
            }
        }
    };
}
//@ name=c19_boxed_random_bits_64_64 prop=C19,C15,C11 tier=quick profile=k64 funcs="BoxedUint::try_random_bits_with_precision,BoxedUint::try_random_bits,random_bits_core" bound="bit_length=64, precision=64, every byte stream: equals Uint::try_random_bits on the same stream, same bytes consumed" free_bits=128 stubs="RNG = symbolic byte tape"
boxed_random_bits!(c19_boxed_random_bits_64_64, 64, 64);
//@ name=c19_boxed_random_bits_100_128 prop=C19,C15,C11 tier=quick profile=k64 funcs="BoxedUint::try_random_bits_with_precision,random_bits_core" bound="bit_length=100, precision=128, every byte stream" free_bits=128 stubs="RNG = symbolic byte tape"
boxed_random_bits!(c19_boxed_random_bits_100_128, 100, 128);
//@ name=c19_boxed_random_bits_65_100 prop=C19,C15,C11 tier=quick profile=k64 funcs="BoxedUint::try_random_bits_with_precision,random_bits_core" bound="bit_length=65, precision=100 (not limb aligned), every byte stream" free_bits=128 stubs="RNG = symbolic byte tape" core=C15
boxed_random_bits!(c19_boxed_random_bits_65_100, 65, 100);
//@ name=c19_boxed_random_bits_120_100 prop=C19,C11 tier=quick profile=k64 funcs="BoxedUint::try_random_bits_with_precision" bound="bit_length=120 > precision=100 (inside the rounded-up limb): must be BitLengthTooLarge" free_bits=128 stubs="RNG = symbolic byte tape"
boxed_random_bits!(c19_boxed_random_bits_120_100, 120, 100);
//@ name=c19_boxed_random_bits_1_0 prop=C19,C11 tier=quick profile=k64 funcs="BoxedUint::try_random_bits_with_precision" bound="bit_length=1 > precision=0: must be BitLengthTooLarge" free_bits=128 stubs="RNG = symbolic byte tape" core=C11
boxed_random_bits!(c19_boxed_random_bits_1_0, 1, 0);
//@ name=c19_boxed_random_bits_0_0 prop=C19,C11 tier=quick profile=k64 funcs="BoxedUint::try_random_bits_with_precision" bound="bit_length=0, precision=0" free_bits=128 stubs="RNG = symbolic byte tape"
boxed_random_bits!(c19_boxed_random_bits_0_0, 0, 0);

//@ prop=C19,C15,C11 tier=quick profile=k64 funcs="BoxedUint::random_mod,BoxedUint::try_random_mod,random_mod_core" bound="BoxedUint 2 limbs vs Uint<2>: every non-zero modulus, every RNG stream of 4 words then zeros: same value, same words consumed" free_bits=384 stubs="RNG = bounded symbolic tape" core=C15
#[kani::proof]
#[kani::unwind(10)]
fn c19_random_mod_boxed_vs_fixed() {
    let m: Uint<2> = any_uint();
    let mw = words_of(&m);
    kani::assume(!is_zero_words(&mw));
    let mut t = Tape::any(4, 0);
    let words = t.w;
    let f = Uint::<2>::random_mod(&mut t, &NonZero::new(m).unwrap());
    let mut t2 = Tape::from_words(&words[..4], 0);
    let bm = NonZero::new(boxed_from(&mw)).unwrap();
    let b = BoxedUint::random_mod(&mut t2, &bm);
    assert!(b.nlimbs() == 2 && words_eq(&bwords::<2>(&b), &words_of(&f)));
    assert!(t.pos == t2.pos);
    core::mem::forget((b, bm));
}

//@ prop=C19,C11 tier=quick profile=k64 funcs="Uint::try_random,Limb::try_random" bound="Uint<2>, Limb: every RNG stream: limbs are the stream words in order (platform-independent, 8 bytes per limb)" free_bits=192 stubs="RNG = bounded symbolic tape"
#[kani::proof]
#[kani::unwind(10)]
fn c19_random_plain() {
    let mut t = Tape::any(3, 0);
    let w = t.w;
    let r = Uint::<2>::try_random(&mut t).unwrap();
    assert!(r.as_limbs()[0].0 == w[0] && r.as_limbs()[1].0 == w[1] && t.pos == 2);
    let l = Limb::try_random(&mut t).unwrap();
    assert!(l.0 == w[2] && t.bytes == 24);
}

// ---------------------------------------------------------------- ConstMontyForm sampling
use crate::impl_modulus;
impl_modulus!(VerifModC19, crate::U64, "c000000000000001");

//@ prop=C19,C15,C11 tier=quick profile=k64 funcs="Random for ConstMontyForm (try_random),ConstMontyForm::new" bound="U64 modulus 0xc000000000000001 (fills the width): every RNG stream of 4 symbolic words then zeros: exactly the words consumed by Uint::random_mod on the same stream (rejection sampling: same accept/reject decisions; the Montgomery conversion of the accepted candidate is not decided at 64-bit words)" free_bits=256 stubs="RNG = bounded symbolic tape"
#[kani::proof]
#[kani::unwind(10)]
fn c19_const_monty_random() {
    use crate::modular::ConstMontyForm;
    use crate::{NonZero, Random, RandomMod, U64};
    let mut t1 = Tape::any(4, 0);
    let mut t2 = Tape { w: t1.w, len: t1.len, pos: 0, fallback: 0, bytes: 0 };
    let r = ConstMontyForm::<VerifModC19, 1>::random(&mut t1);
    let m = NonZero::new(U64::from_u64(0xc000000000000001)).unwrap();
    let v = U64::random_mod(&mut t2, &m);
    assert!(t1.pos == t2.pos && t1.bytes == t2.bytes);
    // The residue itself is new(candidate): the conversion is C08's subject and its 64-bit product is not
    // decidable here; what is decided is that the sampler is the rejection sampler (same acceptance
    // decisions on every stream), which a reduce-instead-of-reject sampler is not.
    let _ = (r, v);
    kani::cover!(t1.pos > 1); // a rejection happened
    kani::cover!(t1.pos == 1);
}
