//! C03 (boxed Karatsuba) — k8k profile: 8-bit words and the Karatsuba thresholds lowered to (2, 1)
//! so that the recursive bodies of `karatsuba_mul_limbs` / `karatsuba_square_limbs` (including the
//! trailing-limb handling for odd and unequal lengths) run at 2..8 limbs.  Oracle: the u128 product.
use super::karatsuba::{karatsuba_mul_limbs, karatsuba_square_limbs};
use crate::__verif_common::boxed::*;
use crate::__verif_common::*;
use crate::{BoxedUint, Limb, Uint, Word};

fn lval(x: &[Limb]) -> u128 {
    let mut v: u128 = 0;
    let mut i = 0;
    while i < x.len() && i < 16 {
        v |= (x[i].0 as u128) << (8 * i);
        i += 1;
    }
    v
}
fn bval(x: &BoxedUint) -> u128 {
    lval(x.as_limbs())
}

/// direct call on arrays: lhs A limbs, rhs B limbs, scratch of 2*min(A,B) limbs as BoxedUint::mul allocates
macro_rules! kmul {
    ($name:ident, $A:expr, $B:expr, $a:expr, $b:expr) => {
        #[kani::proof]
        #[kani::unwind(18)]
        fn $name() {
            const A: usize = $A;
            const B: usize = $B;
            const OV: usize = if A < B { A } else { B };
            let a: Uint<A> = $a;
            let b: Uint<B> = $b;
            let mut out = [Limb(kani::any()); A + B]; // arbitrary prior contents
            let mut scratch = [Limb(kani::any()); 2 * OV];
            karatsuba_mul_limbs(a.as_limbs(), b.as_limbs(), &mut out, &mut scratch);
            let p = lval(a.as_limbs()) * lval(b.as_limbs());
            assert!(lval(&out) == p);
            kani::cover!(p >> (8 * (A + B) - 1) != 0);
            kani::cover!(p != 0 && p >> (8 * (A + B) - 8) == 0);
        }
    };
}
/// through the public API (threshold dispatch, buffer sizing, truncation)
macro_rules! kmul_boxed {
    ($name:ident, $A:expr, $B:expr, $a:expr, $b:expr) => {
        #[kani::proof]
        #[kani::unwind(26)]
        fn $name() {
            let af: Uint<$A> = $a;
            let bf: Uint<$B> = $b;
            let a = boxed_from(&words_of(&af));
            let b = boxed_from(&words_of(&bf));
            let m = a.mul(&b);
            let p = lval(af.as_limbs()) * lval(bf.as_limbs());
            assert!(m.nlimbs() == $A + $B && bval(&m) == p);
            kani::cover!(p >> (8 * ($A + $B) - 1) != 0);
            core::mem::forget((a, b, m));
        }
    };
}
macro_rules! ksq {
    ($name:ident, $A:expr, $U:expr, $a:expr) => {
        #[kani::proof]
        #[kani::unwind($U)]
        fn $name() {
            const A: usize = $A;
            let a: Uint<A> = $a;
            let mut out = [Limb(kani::any()); 2 * A];
            let mut scratch = [Limb(kani::any()); 2 * A];
            karatsuba_square_limbs(a.as_limbs(), &mut out, &mut scratch);
            let v = lval(a.as_limbs());
            assert!(lval(&out) == v * v);
            let ab = boxed_from(&words_of(&a));
            let s = ab.square();
            assert!(s.nlimbs() == 2 * A && bval(&s) == v * v);
            kani::cover!((v * v) >> (16 * A - 1) != 0);
            core::mem::forget((ab, s));
        }
    };
}

//@ name=c03_k8k_kmul_2_2 prop=C03,C15 tier=quick profile=k8k funcs="karatsuba_mul_limbs,adc_mul_limbs,conditional_wrapping_neg_assign" bound="u8 words, thresholds (2,1): 2x2 limbs, every limb S(3)" free_bits=16
kmul!(c03_k8k_kmul_2_2, 2, 2, shaped(3), shaped(3));
//@ name=c03_k8k_kmul_3_3 prop=C03,C15 tier=quick profile=k8k funcs="karatsuba_mul_limbs (both operands with a trailing limb)" bound="u8 words, thresholds (2,1): 3x3 limbs, lhs limbs S(2), rhs limbs S(1)" free_bits=15
kmul!(c03_k8k_kmul_3_3, 3, 3, shaped(2), shaped(1));
//@ name=c03_k8k_kmul_3_2 prop=C03,C15 tier=quick profile=k8k funcs="karatsuba_mul_limbs (lhs trailing limb)" bound="u8 words, thresholds (2,1): 3x2 limbs, every limb S(2)" free_bits=15
kmul!(c03_k8k_kmul_3_2, 3, 2, shaped(2), shaped(2));
//@ name=c03_k8k_kmul_2_4 prop=C03,C15 tier=quick profile=k8k funcs="karatsuba_mul_limbs (rhs two trailing limbs)" bound="u8 words, thresholds (2,1): 2x4 limbs, every limb S(2)" free_bits=18
kmul!(c03_k8k_kmul_2_4, 2, 4, shaped(2), shaped(2));
//@ name=c03_k8k_kmul_4_4 prop=C03,C15 tier=quick profile=k8k funcs="karatsuba_mul_limbs (two recursion levels)" bound="u8 words, thresholds (2,1): 4x4 limbs, every limb S(1)" free_bits=16
kmul!(c03_k8k_kmul_4_4, 4, 4, shaped(1), shaped(1));
//@ name=c03_k8k_kmul_5_5 prop=C03,C15 tier=quick profile=k8k funcs="karatsuba_mul_limbs (two recursion levels, both trailing)" bound="u8 words, thresholds (2,1): 5x5 limbs, lhs limbs S(1), rhs = [w0,w1,w2,w0,w1] with w_i S(1)" free_bits=16
kmul!(c03_k8k_kmul_5_5, 5, 5, shaped(1), { let w: Uint<3> = shaped(1); let l = w.as_limbs(); Uint::new([l[0], l[1], l[2], l[0], l[1]]) });
//@ name=c03_k8k_kmul_5_5w prop=C03,C15 tier=thorough profile=k8k funcs="karatsuba_mul_limbs (two recursion levels, both trailing)" bound="u8 words, thresholds (2,1): 5x5 limbs, every limb S(1)" free_bits=20
kmul!(c03_k8k_kmul_5_5w, 5, 5, shaped(1), shaped(1));
// (a 24-bit 5x7 instance found the carry defect repaired by /repo afee340 within minutes on the defective tree, but proving it on
// the repaired tree does not finish in 3600 s; the 16-bit instances c03_k8k_kmul_5_7q / c03_k8k_boxed_mul_5_7 below contain the
// failing pattern and fail on the parent commit.)
//@ name=c03_k8k_kmul_5_7q prop=C03,C15 tier=quick profile=k8k funcs="karatsuba_mul_limbs (lhs shorter, both trailing),adc_mul_limbs (accumulating)" bound="u8 words, thresholds (2,1): 5x7 limbs, lhs limbs S(1), rhs = [u,u,u,v,w,w,w] with u,v,w S(1)" free_bits=16
kmul!(c03_k8k_kmul_5_7q, 5, 7, shaped(1), { let t: Uint<3> = shaped(1); let l = t.as_limbs(); Uint::new([l[0], l[0], l[0], l[1], l[2], l[2], l[2]]) });

//@ name=c03_k8k_boxed_mul_3_3 prop=C03,C15,C11 tier=quick profile=k8k funcs="BoxedUint::mul (Karatsuba dispatch),karatsuba_mul_limbs" bound="u8 words, thresholds (2,1): boxed 3x3 limbs, every limb S(1)" free_bits=12
kmul_boxed!(c03_k8k_boxed_mul_3_3, 3, 3, shaped(1), shaped(1));
//@ name=c03_k8k_boxed_mul_2_5 prop=C03,C15,C11 tier=quick profile=k8k funcs="BoxedUint::mul (Karatsuba dispatch, unequal lengths)" bound="u8 words, thresholds (2,1): boxed 2x5 limbs, every limb S(1)" free_bits=14
kmul_boxed!(c03_k8k_boxed_mul_2_5, 2, 5, shaped(1), shaped(1));
//@ name=c03_k8k_boxed_mul_5_3 prop=C03,C15,C11 tier=quick profile=k8k funcs="BoxedUint::mul (Karatsuba dispatch, unequal lengths)" bound="u8 words, thresholds (2,1): boxed 5x3 limbs, every limb S(1)" free_bits=16
kmul_boxed!(c03_k8k_boxed_mul_5_3, 5, 3, shaped(1), shaped(1));

//@ name=c03_k8k_boxed_mul_5_7 prop=C03,C15,C11 tier=quick profile=k8k funcs="BoxedUint::mul (Karatsuba dispatch, lhs shorter, both trailing)" bound="u8 words, thresholds (2,1): boxed 5x7 limbs, lhs limbs S(1), rhs = [u,u,u,v,w,w,w] with u,v,w S(1)" free_bits=16
kmul_boxed!(c03_k8k_boxed_mul_5_7, 5, 7, shaped(1), { let t: Uint<3> = shaped(1); let l = t.as_limbs(); Uint::new([l[0], l[0], l[0], l[1], l[2], l[2], l[2]]) });
//@ name=c03_k8k_ksq_4 prop=C03,C15,C11 tier=quick profile=k8k funcs="karatsuba_square_limbs,BoxedUint::square (Karatsuba dispatch)" bound="u8 words, thresholds (2,1): 4 limbs, every limb S(2)" free_bits=12
ksq!(c03_k8k_ksq_4, 4, 18, shaped(2));
//@ name=c03_k8k_ksq_6 prop=C03,C15,C11 tier=quick profile=k8k funcs="karatsuba_square_limbs (odd half: schoolbook inner),BoxedUint::square" bound="u8 words, thresholds (2,1): 6 limbs, every limb S(1)" free_bits=12
ksq!(c03_k8k_ksq_6, 6, 26, shaped(1));
//@ name=c03_k8k_ksq_8 prop=C03,C15,C11 tier=thorough profile=k8k funcs="karatsuba_square_limbs (two recursion levels),BoxedUint::square" bound="u8 words, thresholds (2,1): 8 limbs, every limb S(1)" free_bits=16
ksq!(c03_k8k_ksq_8, 8, 34, shaped(1));
