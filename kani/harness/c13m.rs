//! C13 (multiplication part) — k8: 8-bit words, oracle in i32/i64.
use crate::__verif_common::*;
use crate::{Checked, CheckedMul, ConstChoice, Int, Limb, Uint, Word};

fn sval<const L: usize>(x: &Int<L>) -> i64 {
    let u = to_u64(x.as_uint());
    let bits = 8 * L as u32;
    // sign-extend from `bits`
    ((u << (64 - bits)) as i64) >> (64 - bits)
}

//@ prop=C13,C03,C11 tier=quick profile=k8 funcs="Int::split_mul,Int::widening_mul,CheckedMul<Int> for Int,Int::split_mul_uint,Int::split_mul_uint_right,Int::widening_mul_uint,CheckedMul<Uint> for Int,Int::checked_mul_uint_right,Int::widening_square,Int::checked_square,Int::wrapping_square,Int::saturating_square,Mul for Checked<Int>" bound="u8 words, Int<1> x Int<1> and Int<1> x Uint<1>: every pair" free_bits=16
#[kani::proof]
#[kani::unwind(6)]
fn c13_k8_int1_mul_all() {
    let a: Int<1> = Int::from_bits(any_uint());
    let b: Int<1> = Int::from_bits(any_uint());
    let (x, y) = (sval(&a), sval(&b));
    let p = x * y;
    // split_mul: magnitude and sign
    let (lo, hi, neg) = a.split_mul(&b);
    let mag = to_u64(&lo) | (to_u64(&hi) << 8);
    assert!(mag as i64 == p.abs());
    assert!(p == 0 || neg.to_bool_vartime() == (p < 0));
    let w: Int<2> = a.widening_mul(&b);
    assert!(sval(&w) == p);
    let c = CheckedMul::checked_mul(&a, &b);
    let fits = p >= -128 && p <= 127;
    assert!(bool::from(c.is_some()) == fits);
    if fits {
        assert!(sval(&c.unwrap()) == p);
        assert!(sval(&(a * b)) == p);
        assert!(sval(&(Checked::new(a) * Checked::new(b)).0.unwrap()) == p);
    } else {
        assert!(bool::from((Checked::new(a) * Checked::new(b)).0.is_none()));
    }
    // by unsigned
    let u: Uint<1> = *b.as_uint();
    let uv = to_u64(&u) as i64;
    let q = x * uv;
    let (lo, hi, neg) = a.split_mul_uint(&u);
    assert!((to_u64(&lo) | (to_u64(&hi) << 8)) as i64 == q.abs() && neg.to_bool_vartime() == (x < 0));
    let (lo2, hi2, neg2) = a.split_mul_uint_right(&u);
    assert!((to_u64(&lo2) | (to_u64(&hi2) << 8)) as i64 == q.abs() && neg2.to_bool_vartime() == (x < 0));
    let wu: Int<2> = a.widening_mul_uint(&u);
    assert!(sval(&wu) == q);
    let cu = CheckedMul::<Uint<1>>::checked_mul(&a, &u);
    assert!(bool::from(cu.is_some()) == (q >= -128 && q <= 127));
    if q >= -128 && q <= 127 {
        assert!(sval(&cu.unwrap()) == q);
    }
    let cr = a.checked_mul_uint_right(&u);
    assert!(bool::from(cr.is_some()) == (q >= -128 && q <= 127));
    // squares (unsigned results)
    let sq = (x * x) as u64;
    let ws: Uint<2> = a.widening_square();
    assert!(to_u64(&ws) == sq);
    assert!(a.checked_square().is_some().to_bool_vartime() == (sq <= 0xff));
    assert!(to_u64(&a.wrapping_square()) == sq & 0xff);
    assert!(to_u64(&a.saturating_square()) == if sq > 0xff { 0xff } else { sq });
    kani::cover!(p == -128);
    kani::cover!(p == 128);
    kani::cover!(x == -128 && y == -1);
    kani::cover!(x == -128 && y == -128);
}

//@ prop=C13,C11 tier=quick profile=k8 funcs="Mul for Int" bound="u8 words, Int<1>: every pair whose product is outside [MIN, MAX]: * must panic" free_bits=16 must_panic=1
#[kani::proof]
#[kani::unwind(6)]
fn c13_k8_int1_mul_op_panics_on_overflow() {
    let a: Int<1> = Int::from_bits(any_uint());
    let b: Int<1> = Int::from_bits(any_uint());
    let p = sval(&a) * sval(&b);
    kani::assume(p < -128 || p > 127);
    let _ = a * b;
    must_have_panicked();
}

//@ prop=C13,C03,C11 tier=quick profile=k8 funcs="Int::split_mul,Int::widening_mul,CheckedMul<Int> for Int,CheckedMul<Uint> for Int,Int::checked_square" bound="u8 words, Int<2> x Int<2>: limbs [S(2),S(3)] each (values next to 0, +-2^7, +-2^8, 2^15, -1)" free_bits=14
#[kani::proof]
#[kani::unwind(6)]
fn c13_k8_int2_mul_shaped() {
    let a: Int<2> = Int::from_bits(Uint::new([Limb(shaped_word(2)), Limb(shaped_word(3))]));
    let b: Int<2> = Int::from_bits(Uint::new([Limb(shaped_word(2)), Limb(shaped_word(3))]));
    let (x, y) = (sval(&a), sval(&b));
    let p = x * y;
    let (lo, hi, neg) = a.split_mul(&b);
    assert!((to_u64(&lo) | (to_u64(&hi) << 16)) as i64 == p.abs());
    assert!(p == 0 || neg.to_bool_vartime() == (p < 0));
    let w: Int<4> = a.widening_mul(&b);
    assert!(sval(&w) == p);
    let c = CheckedMul::checked_mul(&a, &b);
    let fits = p >= -32768 && p <= 32767;
    assert!(bool::from(c.is_some()) == fits);
    if fits {
        assert!(sval(&c.unwrap()) == p);
    }
    let u: Uint<2> = *b.as_uint();
    let q = x * (to_u64(&u) as i64);
    let cu = CheckedMul::<Uint<2>>::checked_mul(&a, &u);
    assert!(bool::from(cu.is_some()) == (q >= -32768 && q <= 32767));
    assert!(a.checked_square().is_some().to_bool_vartime() == ((x * x) as u64 <= 0xffff));
    kani::cover!(p <= -32768);
    kani::cover!(p >= 32768);
    kani::cover!(!fits && hi == Uint::ZERO); // overflow visible only in the sign bit of the low half
}

//@ prop=C13,C03,C11 tier=quick profile=k8 funcs="Int::split_mul (mixed width),CheckedMul<Int<1>> for Int<2>" bound="u8 words, Int<2> x Int<1>: a=[S(3),free], every b" free_bits=20
#[kani::proof]
#[kani::unwind(6)]
fn c13_k8_int2_int1_mul_mixed() {
    let a: Int<2> = Int::from_bits(Uint::new([Limb(shaped_word(3)), Limb(kani::any())]));
    let b: Int<1> = Int::from_bits(any_uint());
    let p = sval(&a) * sval(&b);
    let (lo, hi, neg) = a.split_mul(&b);
    assert!((to_u64(&lo) | (to_u64(&hi) << 16)) as i64 == p.abs());
    assert!(p == 0 || neg.to_bool_vartime() == (p < 0));
    let c = CheckedMul::<Int<1>>::checked_mul(&a, &b);
    let fits = p >= -32768 && p <= 32767;
    assert!(bool::from(c.is_some()) == fits);
    if fits {
        assert!(sval(&c.unwrap()) == p);
    }
    kani::cover!(p == -32768);
    kani::cover!(!fits && p > 0);
}

//@ prop=C13,C03,C11 tier=quick profile=k8 funcs="CheckedMul<Int<2>> for Int<1>,CheckedMul<Uint<2>> for Int<1>,Int::checked_mul_uint_right (result narrower than the other operand),Mul<Int<2>> for Int<1>" bound="u8 words, Int<1> x Int<2> / Uint<2>: every a, b=[S(3), free]: none exactly when the product leaves [-128, 127]" free_bits=20
#[kani::proof]
#[kani::unwind(6)]
fn c13_k8_int1_by_wider_mul_mixed() {
    let a: Int<1> = Int::from_bits(any_uint());
    let bw = Uint::<2>::new([Limb(shaped_word(3)), Limb(kani::any())]);
    let b: Int<2> = Int::from_bits(bw);
    let p = sval(&a) * sval(&b);
    let c = CheckedMul::<Int<2>>::checked_mul(&a, &b);
    let fits = p >= -128 && p <= 127;
    assert!(bool::from(c.is_some()) == fits);
    if fits {
        assert!(sval(&c.unwrap()) == p);
    }
    // unsigned wider right operand
    let q = sval(&a) * (to_u64(&bw) as i64);
    let fq = q >= -128 && q <= 127;
    let cu = CheckedMul::<Uint<2>>::checked_mul(&a, &bw);
    assert!(bool::from(cu.is_some()) == fq);
    if fq {
        assert!(sval(&cu.unwrap()) == q);
    }
    // Int<2> by Uint<1>, result stored at the width of the unsigned right operand (documented)
    let r = b.checked_mul_uint_right(&Uint::<1>::new([a.as_uint().as_limbs()[0]]));
    let pr = sval(&b) * (to_u64(a.as_uint()) as i64);
    let fr = pr >= -128 && pr <= 127;
    assert!(bool::from(r.is_some()) == fr);
    if fr {
        assert!(sval(&r.unwrap()) == pr);
    }
    kani::cover!(!fits && p > 0 && p & 0xff00 == 0x0000 && p > 0xffff); // overflow visible only above the kept limbs
    kani::cover!(p == -128);
    kani::cover!(!fq && q < 0);
}
