//! C16 / C12 (serde part) — the crate's Serialize / Deserialize impls driven through a minimal
//! in-harness serde data format (binary and human-readable flavours), so that no external format
//! crate is needed: bytes -> `serialize_bytes` / `deserialize_byte_buf`, hex text -> `serialize_str`
//! / `deserialize_str`, words -> `serialize_u64`, options -> one tag byte.
use crate::__verif_common::*;
use crate::{Checked, Encoding, Limb, NonZero, Odd, Uint, Wrapping, U128, U64};
use core::fmt;
use serdect::serde::de::{self, Deserialize, Visitor};
use serdect::serde::ser::{self, Impossible, Serialize};

#[derive(Debug)]
pub struct E;
impl fmt::Display for E {
    fn fmt(&self, _f: &mut fmt::Formatter<'_>) -> fmt::Result {
        Ok(())
    }
}
impl de::StdError for E {}
impl ser::Error for E {
    fn custom<T: fmt::Display>(_m: T) -> Self {
        E
    }
}
impl de::Error for E {
    fn custom<T: fmt::Display>(_m: T) -> Self {
        E
    }
}

pub struct Out {
    pub buf: [u8; 48],
    pub len: usize,
}
impl Out {
    fn push(&mut self, b: &[u8]) -> Result<(), E> {
        if self.len + b.len() > 48 {
            return Err(E);
        }
        let mut i = 0;
        while i < b.len() {
            self.buf[self.len + i] = b[i];
            i += 1;
        }
        self.len += b.len();
        Ok(())
    }
}
pub struct Ser<'a> {
    out: &'a mut Out,
    human: bool,
}
macro_rules! unsupported {
    ($($f:ident($t:ty))*) => { $(fn $f(self, _v: $t) -> Result<(), E> { Err(E) })* };
}
impl<'a> ser::Serializer for Ser<'a> {
    type Ok = ();
    type Error = E;
    type SerializeSeq = Impossible<(), E>;
    type SerializeTuple = Impossible<(), E>;
    type SerializeTupleStruct = Impossible<(), E>;
    type SerializeTupleVariant = Impossible<(), E>;
    type SerializeMap = Impossible<(), E>;
    type SerializeStruct = Impossible<(), E>;
    type SerializeStructVariant = Impossible<(), E>;
    fn is_human_readable(&self) -> bool {
        self.human
    }
    unsupported! { serialize_bool(bool) serialize_i8(i8) serialize_i16(i16) serialize_i32(i32) serialize_i64(i64)
        serialize_u8(u8) serialize_u16(u16) serialize_u32(u32) serialize_f32(f32) serialize_f64(f64) serialize_char(char) }
    fn serialize_u64(self, v: u64) -> Result<(), E> {
        self.out.push(&v.to_le_bytes())
    }
    fn serialize_str(self, v: &str) -> Result<(), E> {
        self.out.push(v.as_bytes())
    }
    fn serialize_bytes(self, v: &[u8]) -> Result<(), E> {
        self.out.push(v)
    }
    fn serialize_none(self) -> Result<(), E> {
        self.out.push(&[0])
    }
    fn serialize_some<T: ?Sized + Serialize>(self, v: &T) -> Result<(), E> {
        self.out.push(&[1])?;
        v.serialize(self)
    }
    fn serialize_unit(self) -> Result<(), E> {
        Err(E)
    }
    fn serialize_unit_struct(self, _n: &'static str) -> Result<(), E> {
        Err(E)
    }
    fn serialize_unit_variant(self, _n: &'static str, _i: u32, _v: &'static str) -> Result<(), E> {
        Err(E)
    }
    fn serialize_newtype_struct<T: ?Sized + Serialize>(self, _n: &'static str, v: &T) -> Result<(), E> {
        v.serialize(self)
    }
    fn serialize_newtype_variant<T: ?Sized + Serialize>(self, _n: &'static str, _i: u32, _v: &'static str, _x: &T) -> Result<(), E> {
        Err(E)
    }
    fn serialize_seq(self, _l: Option<usize>) -> Result<Self::SerializeSeq, E> {
        Err(E)
    }
    fn serialize_tuple(self, _l: usize) -> Result<Self::SerializeTuple, E> {
        Err(E)
    }
    fn serialize_tuple_struct(self, _n: &'static str, _l: usize) -> Result<Self::SerializeTupleStruct, E> {
        Err(E)
    }
    fn serialize_tuple_variant(self, _n: &'static str, _i: u32, _v: &'static str, _l: usize) -> Result<Self::SerializeTupleVariant, E> {
        Err(E)
    }
    fn serialize_map(self, _l: Option<usize>) -> Result<Self::SerializeMap, E> {
        Err(E)
    }
    fn serialize_struct(self, _n: &'static str, _l: usize) -> Result<Self::SerializeStruct, E> {
        Err(E)
    }
    fn serialize_struct_variant(self, _n: &'static str, _i: u32, _v: &'static str, _l: usize) -> Result<Self::SerializeStructVariant, E> {
        Err(E)
    }
    fn collect_str<T: ?Sized + fmt::Display>(self, _v: &T) -> Result<(), E> {
        Err(E)
    }
}

pub struct De<'de> {
    input: &'de [u8],
    human: bool,
}
impl<'de> de::Deserializer<'de> for De<'de> {
    type Error = E;
    fn is_human_readable(&self) -> bool {
        self.human
    }
    fn deserialize_any<V: Visitor<'de>>(self, _v: V) -> Result<V::Value, E> {
        Err(E)
    }
    fn deserialize_u64<V: Visitor<'de>>(self, v: V) -> Result<V::Value, E> {
        if self.input.len() != 8 {
            return Err(E);
        }
        let mut b = [0u8; 8];
        b.copy_from_slice(self.input);
        v.visit_u64(u64::from_le_bytes(b))
    }
    fn deserialize_bytes<V: Visitor<'de>>(self, v: V) -> Result<V::Value, E> {
        v.visit_bytes(self.input)
    }
    fn deserialize_byte_buf<V: Visitor<'de>>(self, v: V) -> Result<V::Value, E> {
        v.visit_bytes(self.input)
    }
    fn deserialize_str<V: Visitor<'de>>(self, v: V) -> Result<V::Value, E> {
        // harness inputs are ASCII by assumption; skipping the validation loop keeps symex small
        v.visit_str(unsafe { core::str::from_utf8_unchecked(self.input) })
    }
    fn deserialize_string<V: Visitor<'de>>(self, v: V) -> Result<V::Value, E> {
        self.deserialize_str(v)
    }
    fn deserialize_option<V: Visitor<'de>>(self, v: V) -> Result<V::Value, E> {
        if self.input.is_empty() {
            return Err(E);
        }
        if self.input[0] == 0 {
            if self.input.len() != 1 {
                return Err(E);
            }
            v.visit_none()
        } else {
            v.visit_some(De { input: &self.input[1..], human: self.human })
        }
    }
    fn deserialize_newtype_struct<V: Visitor<'de>>(self, _n: &'static str, v: V) -> Result<V::Value, E> {
        v.visit_newtype_struct(self)
    }
    serdect::serde::forward_to_deserialize_any! {
        bool i8 i16 i32 i64 u8 u16 u32 f32 f64 char unit unit_struct seq tuple tuple_struct map struct enum identifier ignored_any
    }
}

fn ser<T: Serialize>(v: &T, human: bool) -> (Out, bool) {
    let mut out = Out { buf: [0; 48], len: 0 };
    let ok = v.serialize(Ser { out: &mut out, human }).is_ok();
    (out, ok)
}
fn de<'a, T: Deserialize<'a>>(input: &'a [u8], human: bool) -> Option<T> {
    T::deserialize(De { input, human }).ok()
}
fn bytes_eq(a: &[u8], b: &[u8]) -> bool {
    if a.len() != b.len() {
        return false;
    }
    let mut ok = true;
    let mut i = 0;
    while i < a.len() {
        ok &= a[i] == b[i];
        i += 1;
    }
    ok
}

//@ prop=C16,C11 tier=quick profile=k64 funcs="Serialize for Uint,Deserialize for Uint,Serialize/Deserialize for Wrapping<Uint>,Limb" bound="binary flavour: U128, Wrapping<U128>, Limb (the Int impls need Int: Encoding, which no Int type implements): every value round-trips, the wire image is the little-endian byte string; every 16-byte input decodes to from_le_bytes; inputs of 15 and 17 bytes are rejected" free_bits=400
#[kani::proof]
#[kani::unwind(50)]
fn c16_serde_binary_roundtrip() {
    let x: U128 = any_uint();
    let (o, ok) = ser(&x, false);
    assert!(ok && o.len == 16 && bytes_eq(&o.buf[..16], &x.to_le_bytes()));
    let y: Option<U128> = de(&o.buf[..16], false);
    assert!(y == Some(x));
    // arbitrary wire bytes
    let w: [u8; 17] = kani::any();
    let z: Option<U128> = de(&w[..16], false);
    let mut w16 = [0u8; 16];
    w16.copy_from_slice(&w[..16]);
    assert!(z == Some(U128::from_le_bytes(w16)));
    assert!(de::<U128>(&w[..15], false).is_none() && de::<U128>(&w[..17], false).is_none());
    // wrappers are transparent
    let (ow, ok) = ser(&Wrapping(x), false);
    assert!(ok && ow.len == 16 && bytes_eq(&ow.buf[..16], &x.to_le_bytes()));
    assert!(de::<Wrapping<U128>>(&w[..16], false).map(|v| v.0) == Some(U128::from_le_bytes(w16)));
    let l = Limb(kani::any());
    let (ol, ok) = ser(&l, false);
    assert!(ok && ol.len == 8 && bytes_eq(&ol.buf[..8], &l.0.to_le_bytes()));
    assert!(de::<Limb>(&ol.buf[..8], false) == Some(l));
}

fn hexval(c: u8) -> Option<u8> {
    match c {
        b'0'..=b'9' => Some(c - b'0'),
        b'a'..=b'f' => Some(c - b'a' + 10),
        b'A'..=b'F' => Some(c - b'A' + 10),
        _ => None,
    }
}

//@ prop=C16,C11 tier=quick profile=k64 funcs="Serialize for Uint (human-readable)" bound="text flavour: U64: every value serialises to the 16 lower-case hex digits of its little-endian bytes" free_bits=67
#[kani::proof]
#[kani::unwind(40)]
fn c16_serde_text_serialize() {
    let x: U64 = any_uint();
    let (o, ok) = ser(&x, true);
    assert!(ok && o.len == 16);
    let le = x.to_le_bytes();
    let j: usize = kani::any();
    kani::assume(j < 8);
    let digit = |n: u8| if n < 10 { b'0' + n } else { b'a' + n - 10 };
    assert!(o.buf[2 * j] == digit(le[j] >> 4) && o.buf[2 * j + 1] == digit(le[j] & 15));
}

//@ prop=C16,C11 tier=quick profile=k64 funcs="Deserialize for Uint (human-readable)" bound="text flavour: U64: 16-character ASCII inputs with 4 arbitrary characters (positions 0,1,6,15; the rest '0'..'f' fixed): decodes exactly when all characters are hex digits (either case), to the little-endian value; an 18-character input is rejected" free_bits=28
#[kani::proof]
#[kani::unwind(40)]
fn c16_serde_text_deserialize() {
    let mut w: [u8; 18] = *b"00a1B2c3D4e5F60789";
    let f: [u8; 4] = kani::any();
    kani::assume(f[0] < 0x80 && f[1] < 0x80 && f[2] < 0x80 && f[3] < 0x80);
    w[0] = f[0];
    w[1] = f[1];
    w[6] = f[2];
    w[15] = f[3];
    let r: Option<U64> = de(&w[..16], true);
    let hv = [hexval(f[0]), hexval(f[1]), hexval(f[2]), hexval(f[3])];
    let all = hv[0].is_some() && hv[1].is_some() && hv[2].is_some() && hv[3].is_some();
    assert!(r.is_some() == all);
    if let Some(v) = r {
        let b = v.to_le_bytes();
        assert!(b[0] == (hv[0].unwrap() << 4) | hv[1].unwrap());
        assert!(b[1] == 0xa1 && b[2] == 0xb2 && b[4] == 0xd4 && b[5] == 0xe5 && b[6] == 0xf6);
        assert!(b[3] == (hv[2].unwrap() << 4) | 3 && b[7] == hv[3].unwrap());
    }
    // a longer numeral cannot be represented and must be rejected.  (A *shorter* hex string is
    // accepted and zero-extended by the serdect dependency's visitor; the property's serde clause
    // is about round trips, so that leniency is not asserted against — see DESIGN.md 9.2.)
    assert!(de::<U64>(&w[..18], true).is_none());
    kani::cover!(all);
    kani::cover!(!all && hv[0].is_some());
}

//@ prop=C12,C16,C11 tier=quick profile=k64 funcs="Deserialize for NonZero,Deserialize for Odd,Serialize for NonZero,Serialize for Odd,Serialize/Deserialize for Checked" bound="binary flavour: every 16-byte wire image: NonZero<U128> decodes exactly for a non-zero value, Odd<U128> exactly for an odd value, never holding an invalid value; Checked<U64>: none/some tag round-trips" free_bits=330
#[kani::proof]
#[kani::unwind(50)]
fn c12_serde_wrappers() {
    let w: [u8; 16] = kani::any();
    let v = U128::from_le_bytes(w);
    let vv = to_u128(&v);
    let nz: Option<NonZero<U128>> = de(&w, false);
    assert!(nz.is_some() == (vv != 0));
    if let Some(n) = nz {
        assert!(to_u128(n.as_ref()) == vv);
        let (o, ok) = ser(&n, false);
        assert!(ok && o.len == 16 && bytes_eq(&o.buf[..16], &w));
    }
    let od: Option<Odd<U128>> = de(&w, false);
    assert!(od.is_some() == (vv & 1 == 1));
    if let Some(n) = od {
        assert!(to_u128(n.as_ref()) == vv);
        let (o, ok) = ser(&n, false);
        assert!(ok && o.len == 16 && bytes_eq(&o.buf[..16], &w));
    }
    assert!(de::<NonZero<U128>>(&w[..15], false).is_none() && de::<Odd<U128>>(&w[..15], false).is_none());
    let nl: Option<NonZero<Limb>> = de(&w[..8], false);
    assert!(nl.is_some() == (vv as u64 != 0));
    // Checked<T>: option-shaped
    let some: bool = kani::any();
    let c = if some { Checked::new(U64::from_u64(vv as u64)) } else { Checked(subtle::CtOption::new(U64::ZERO, subtle::Choice::from(0))) };
    let (oc, ok) = ser(&c, false);
    assert!(ok && oc.len == if some { 9 } else { 1 } && oc.buf[0] == some as u8);
    let back: Option<Checked<U64>> = de(&oc.buf[..oc.len], false);
    assert!(back.is_some());
    let b = back.unwrap();
    assert!(bool::from(b.0.is_some()) == some);
    if some {
        assert!(b.0.unwrap().as_words()[0] == vv as u64);
    }
    kani::cover!(vv == 0);
    kani::cover!(vv != 0 && vv & 1 == 0);
}
