//! C14 — signed division flavours.  k8: 8-bit words, oracle in i64.
use crate::__verif_common::*;
use crate::{CheckedDiv, DivVartime, Int, Limb, NonZero, Uint, Word, Wrapping};

// Oracles are multiplication-based predicates on i32 (no division circuit in the harness):
// all values are < 2^16 in magnitude, so q*d + r cannot overflow i32.
fn sval<const L: usize>(x: &Int<L>) -> i32 {
    let u = to_u64(x.as_uint()) as u32;
    let bits = 8 * L as u32;
    ((u << (32 - bits)) as i32) >> (32 - bits)
}
fn absv(v: i32) -> i32 {
    if v < 0 { -v } else { v }
}
/// q = trunc(n/d), r = n - q*d with sign(r) in {0, sign(n)}
fn trunc_ok(n: i32, d: i32, q: i32, r: i32) -> bool {
    q * d + r == n && absv(r) < absv(d) && (r == 0 || (r < 0) == (n < 0))
}
/// q = floor(n/d), r = n - q*d with sign(r) in {0, sign(d)}
fn floor_ok(n: i32, d: i32, q: i32, r: i32) -> bool {
    q * d + r == n && absv(r) < absv(d) && (r == 0 || (r < 0) == (d < 0))
}
/// the floor quotient alone: exists r with floor_ok  <=>  0 <= (n - q*d)*sign(d) < |d|
fn floor_q_ok(n: i32, d: i32, q: i32) -> bool {
    let r = n - q * d;
    floor_ok(n, d, q, r)
}

macro_rules! int_div_trunc {
    ($name:ident, $L:expr, $n:expr, $d:expr) => {
        #[kani::proof]
        #[kani::unwind(8)]
        fn $name() {
            const L: usize = $L;
            let n: Int<L> = $n;
            let d: Int<L> = $d;
            let (x, y) = (sval(&n), sval(&d));
            let min = -(1i32 << (8 * L as u32 - 1));
            // option-returning forms with an arbitrary divisor (zero included)
            let cd = n.checked_div(&d);
            let ok = y != 0 && !(x == min && y == -1);
            assert!(bool::from(cd.is_some()) == ok);
            assert!(bool::from(CheckedDiv::checked_div(&n, &d).is_some()) == ok);
            assert!(bool::from(n.checked_div_vartime(&d).is_some()) == ok);
            if y != 0 {
                let dz = NonZero::new(d).unwrap();
                let (q, r) = n.checked_div_rem(&dz);
                assert!(q.is_some().to_bool_vartime() == ok);
                assert!(if x == min && y == -1 { sval(&r) == 0 } else { absv(sval(&r)) < absv(y) });
                assert!(n.rem(&dz) == r);
                let (qv, rv) = n.checked_div_rem_vartime(&dz);
                assert!(qv.is_some().to_bool_vartime() == ok && rv == r && n.rem_vartime(&dz) == r);
                if ok {
                    let qq = q.unwrap_or(Int::ZERO);
                    assert!(trunc_ok(x, y, sval(&qq), sval(&r)));
                    assert!(cd.unwrap() == qq);
                    assert!(qv.unwrap_or(Int::ZERO) == qq);
                    assert!((n / dz).unwrap() == qq && (&n / &dz).unwrap() == qq && n % dz == r && &n % &dz == r);
                    assert!((Wrapping(n) / dz).0 == qq && (Wrapping(n) % dz).0 == r);
                    assert!(DivVartime::div_vartime(&n, &dz) == qq);
                }
            }
            kani::cover!(x == min && y == -1);
            kani::cover!(y == 0);
            kani::cover!(x < 0 && y > 0);
            kani::cover!(x > 0 && y < 0);
            kani::cover!(y == min);
        }
    };
}
//@ name=c14_k8_int1_trunc_all prop=C14,C11,C15 tier=quick profile=k8 funcs="Int::checked_div_rem,Int::checked_div,Int::rem,Int::checked_div_rem_vartime,Int::checked_div_vartime,Int::rem_vartime,CheckedDiv,Div/Rem operators,Wrapping<Int> / %,DivVartime" bound="u8 words, Int<1>: every n, every d (zero included)" free_bits=16 core=C15,C11
int_div_trunc!(c14_k8_int1_trunc_all, 1, Int::from_bits(any_uint()), Int::from_bits(any_uint()));
//@ name=c14_k8_int2_trunc_shaped prop=C14,C11,C15 tier=quick profile=k8 funcs="Int::checked_div_rem,Int::checked_div,Int::rem,Int::checked_div_rem_vartime,Int::checked_div_vartime,Int::rem_vartime" bound="u8 words, Int<2>: n=[S(3),S(3)^sign], d=[S(2),S(2)^sign] (zero, MIN, MAX, -1 included)" free_bits=16
int_div_trunc!(c14_k8_int2_trunc_shaped, 2, Int::from_bits(Uint::new([Limb(shaped_word(3)), Limb(shaped_signed_top(3))])), Int::from_bits(Uint::new([Limb(shaped_word(2)), Limb(shaped_signed_top(2))])));

macro_rules! int_div_floor {
    ($name:ident, $L:expr, $n:expr, $d:expr, $remclass:expr) => {
        #[kani::proof]
        #[kani::unwind(8)]
        fn $name() {
            const L: usize = $L;
            let n: Int<L> = $n;
            let d: Int<L> = $d;
            let (x, y) = (sval(&n), sval(&d));
            let min = -(1i32 << (8 * L as u32 - 1));
            let ok = y != 0 && !(x == min && y == -1);
            assert!(bool::from(n.checked_div_floor(&d).is_some()) == ok);
            assert!(bool::from(n.checked_div_floor_vartime(&d).is_some()) == ok);
            kani::assume(y != 0);
            let dz = NonZero::new(d).unwrap();
            let (q, r) = n.checked_div_rem_floor(&dz);
            let (qv, rv) = n.checked_div_rem_floor_vartime(&dz);
            assert!(q.is_some().to_bool_vartime() == ok && qv.is_some().to_bool_vartime() == ok);
            assert!(r == rv);
            let qq = q.unwrap_or(Int::ZERO);
            if ok {
                assert!(floor_q_ok(x, y, sval(&qq)));
                assert!(qv.unwrap_or(Int::ZERO) == qq && n.checked_div_floor(&d).unwrap() == qq);
            }
            // remainder: n = q*d + r, |r| < |d|, sign(r) in {0, sign(d)}
            // class 0: inputs outside the recorded finding (n >= 0 or exact); class 1: n < 0 and inexact
            let exact = ok && sval(&qq) * y == x;
            let in_finding_class = x < 0 && !exact && ok;
            if $remclass == 0 {
                kani::assume(!in_finding_class);
            } else {
                kani::assume(in_finding_class);
            }
            if ok {
                assert!(floor_ok(x, y, sval(&qq), sval(&r)));
            } else {
                assert!(sval(&r) == 0); // MIN / -1: remainder is still exact
            }
            kani::cover!(exact && (x < 0) != (y < 0) && x != 0);
            kani::cover!($remclass == 1 || (x > 0 && y < 0 && !exact));
        }
    };
}
//@ name=c14_k8_int1_floor prop=C14,C11,C15 tier=quick profile=k8 funcs="Int::checked_div_rem_floor,Int::checked_div_floor,Int::checked_div_rem_floor_vartime,Int::checked_div_floor_vartime" bound="u8 words, Int<1>: every n, every d; quotient for all inputs, remainder for n >= 0 or exact division (the complement is the isolated finding harness)" free_bits=16 assumes="remainder assertion excludes n<0 with inexact division (isolated in c14_k8_int1_floor_rem_negative_dividend)"
int_div_floor!(c14_k8_int1_floor, 1, Int::from_bits(any_uint()), Int::from_bits(any_uint()), 0);
//@ name=c14_k8_int1_floor_rem_negative_dividend prop=C14 tier=quick profile=k8 funcs="Int::checked_div_rem_floor,Int::checked_div_rem_floor_vartime" bound="u8 words, Int<1>: every n < 0 and d with n % d != 0: remainder must satisfy n = q*d + r with sign(r) = sign(d)" free_bits=16 expect=finding:int_floor_rem_sign
int_div_floor!(c14_k8_int1_floor_rem_negative_dividend, 1, Int::from_bits(any_uint()), Int::from_bits(any_uint()), 1);
//@ name=c14_k8_int2_floor_shaped prop=C14,C11,C15 tier=quick profile=k8 funcs="Int::checked_div_rem_floor,Int::checked_div_floor,Int::checked_div_rem_floor_vartime" bound="u8 words, Int<2>: n=[S(3),S(3)^sign], d=[S(2),S(2)^sign]" free_bits=16 assumes="remainder assertion excludes n<0 with inexact division"
int_div_floor!(c14_k8_int2_floor_shaped, 2, Int::from_bits(Uint::new([Limb(shaped_word(3)), Limb(shaped_signed_top(3))])), Int::from_bits(Uint::new([Limb(shaped_word(2)), Limb(shaped_signed_top(2))])), 0);

macro_rules! int_div_uint {
    ($name:ident, $L:expr, $n:expr, $d:expr) => {
        #[kani::proof]
        #[kani::unwind(8)]
        fn $name() {
            const L: usize = $L;
            let n: Int<L> = $n;
            let d: Uint<L> = $d;
            let x = sval(&n);
            let y = to_u64(&d) as i32;
            kani::assume(y != 0);
            let dz = NonZero::new(d).unwrap();
            // truncating
            let (q, r) = n.div_rem_uint(&dz);
            assert!(trunc_ok(x, y, sval(&q), sval(&r)));
            assert!(n.div_uint(&dz) == q && n.rem_uint(&dz) == r);
            let (qv, rv) = n.div_rem_uint_vartime(&dz);
            assert!(qv == q && rv == r && n.div_uint_vartime(&dz) == q && n.rem_uint_vartime(&dz) == r);
            assert!(n / dz == q && n % dz == r);
            // flooring, remainder in [0, d)
            let (fq, fr) = n.div_rem_floor_uint(&dz);
            let fr_i = to_u64(&fr) as i32;
            assert!(sval(&fq) * y + fr_i == x && fr_i >= 0 && fr_i < y);
            assert!(n.div_floor_uint(&dz) == fq && n.normalized_rem(&dz) == fr);
            let (fqv, frv) = n.div_rem_floor_uint_vartime(&dz);
            assert!(fqv == fq && frv == fr && n.div_floor_uint_vartime(&dz) == fq && n.normalized_rem_vartime(&dz) == fr);
            kani::cover!(x < 0 && fr_i != 0);
            kani::cover!(x < 0 && fr_i == 0);
            kani::cover!(L == 1 || (x < 0 && fr_i != 0 && sval(&fq) & 0xff == 0)); // floor +1 carried out of limb 0
        }
    };
}
//@ name=c14_k8_int1_by_uint_all prop=C14,C11,C15 tier=quick profile=k8 funcs="Int::div_rem_uint,Int::div_uint,Int::rem_uint,Int::div_rem_uint_vartime,Int::div_rem_floor_uint,Int::div_floor_uint,Int::normalized_rem,Int::div_rem_floor_uint_vartime,Int::div_floor_uint_vartime,Int::normalized_rem_vartime,Div/Rem<NonZero<Uint>> for Int" bound="u8 words, Int<1> by Uint<1>: every n, every d != 0" free_bits=16 core=C15
int_div_uint!(c14_k8_int1_by_uint_all, 1, Int::from_bits(any_uint()), any_uint());
//@ name=c14_k8_int2_by_uint_shaped prop=C14,C11,C15 tier=quick profile=k8 funcs="Int::div_rem_uint,Int::div_rem_uint_vartime,Int::div_rem_floor_uint,Int::div_floor_uint,Int::normalized_rem,Int::div_rem_floor_uint_vartime" bound="u8 words, Int<2> by Uint<2>: n=[S(3),S(3)^sign], d=[S(3),S(1)] != 0" free_bits=15
int_div_uint!(c14_k8_int2_by_uint_shaped, 2, Int::from_bits(Uint::new([Limb(shaped_word(3)), Limb(shaped_signed_top(3))])), Uint::new([Limb(shaped_word(3)), Limb(shaped_word(1))]));
