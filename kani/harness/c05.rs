//! C05 — shifts and bit queries agree with the binary expansion (k64, all values, every shift).
use crate::__verif_common::*;
use crate::{BitOps, ConstChoice, Int, Limb, ShlVartime, ShrVartime, Uint, Word, WrappingShl, WrappingShr};

// oracle: bit i of (x << s) = (i >= s) && bit (i - s) of x ; bit i of (x >> s) = bit (i + s) of x
macro_rules! uint_shl {
    ($name:ident, $L:expr, $extra:expr) => {
        #[kani::proof]
        #[kani::unwind(12)]
        fn $name() {
            const L: usize = $L;
            let bits = Uint::<L>::BITS;
            let x: Uint<L> = any_uint();
            let xw = words_of(&x);
            let s: u32 = kani::any();
            let i: u32 = kani::any();
            kani::assume(i < bits);
            let o = x.overflowing_shl(s);
            assert!(o.is_some().to_bool_vartime() == (s < bits));
            let r = o.unwrap_or(Uint::<L>::MAX);
            let ov = x.overflowing_shl_vartime(s);
            assert!(ov.is_some().to_bool_vartime() == (s < bits));
            let rv = ov.unwrap_or(Uint::<L>::MAX);
            let w = x.wrapping_shl(s);
            if s < bits {
                let rw = words_of(&r);
                assert!(bit_of(&rw, i) == (i >= s && bit_of(&xw, i - s)));
                assert!(words_eq(&rw, &words_of(&rv)));
                assert!(words_eq(&words_of(&w), &rw));
            } else {
                assert!(is_zero_words(&words_of(&w)));
            }
            if $extra {
                assert!(x.wrapping_shl_vartime(s) == w);
                assert!(WrappingShl::wrapping_shl(&x, s) == w);
                assert!(ShlVartime::wrapping_shl_vartime(&x, s) == w);
                assert!(bool::from(ShlVartime::overflowing_shl_vartime(&x, s).is_some()) == (s < bits));
            }
            kani::cover!(s == bits - 1 && bit_of(&xw, 0));
            kani::cover!(s == bits);
            kani::cover!(s == u32::MAX);
            kani::cover!(s == Limb::BITS && (L > 1 || bits == Limb::BITS));
            kani::cover!(s == 0);
        }
    };
}
macro_rules! uint_shr {
    ($name:ident, $L:expr, $extra:expr) => {
        #[kani::proof]
        #[kani::unwind(12)]
        fn $name() {
            const L: usize = $L;
            let bits = Uint::<L>::BITS;
            let x: Uint<L> = any_uint();
            let xw = words_of(&x);
            let s: u32 = kani::any();
            let i: u32 = kani::any();
            kani::assume(i < bits);
            let o = x.overflowing_shr(s);
            assert!(o.is_some().to_bool_vartime() == (s < bits));
            let r = o.unwrap_or(Uint::<L>::MAX);
            let ov = x.overflowing_shr_vartime(s);
            assert!(ov.is_some().to_bool_vartime() == (s < bits));
            let rv = ov.unwrap_or(Uint::<L>::MAX);
            let w = x.wrapping_shr(s);
            if s < bits {
                let rw = words_of(&r);
                assert!(bit_of(&rw, i) == bit_of(&xw, i + s));
                assert!(words_eq(&rw, &words_of(&rv)));
                assert!(words_eq(&words_of(&w), &rw));
            } else {
                assert!(is_zero_words(&words_of(&w)));
            }
            if $extra {
                assert!(x.wrapping_shr_vartime(s) == w);
                assert!(WrappingShr::wrapping_shr(&x, s) == w);
                assert!(ShrVartime::wrapping_shr_vartime(&x, s) == w);
                assert!(bool::from(ShrVartime::overflowing_shr_vartime(&x, s).is_some()) == (s < bits));
            }
            kani::cover!(s == bits - 1 && bit_of(&xw, bits - 1));
            kani::cover!(s == bits);
            kani::cover!(s == u32::MAX);
            kani::cover!(s == 0);
        }
    };
}
//@ name=c05_uint1_shl prop=C05,C11,C15 tier=quick profile=k64 funcs="Uint::overflowing_shl,Uint::overflowing_shl_vartime,Uint::wrapping_shl" bound="Uint<1>, all values, every u32 shift, symbolic bit index" free_bits=104
uint_shl!(c05_uint1_shl, 1, false);
//@ name=c05_uint1_shr prop=C05,C11,C15 tier=quick profile=k64 funcs="Uint::overflowing_shr,Uint::overflowing_shr_vartime,Uint::wrapping_shr" bound="Uint<1>, all values, every u32 shift, symbolic bit index" free_bits=104
uint_shr!(c05_uint1_shr, 1, false);
//@ name=c05_uint2_shl prop=C05,C11,C15 tier=quick profile=k64 funcs="Uint::overflowing_shl,Uint::overflowing_shl_vartime,Uint::wrapping_shl,Uint::wrapping_shl_vartime,WrappingShl,ShlVartime" bound="Uint<2>, all values, every u32 shift, symbolic bit index" free_bits=168 core=C15
uint_shl!(c05_uint2_shl, 2, true);
//@ name=c05_uint2_shr prop=C05,C11,C15 tier=quick profile=k64 funcs="Uint::overflowing_shr,Uint::overflowing_shr_vartime,Uint::wrapping_shr,Uint::wrapping_shr_vartime,WrappingShr,ShrVartime" bound="Uint<2>, all values, every u32 shift, symbolic bit index" free_bits=168 core=C15
uint_shr!(c05_uint2_shr, 2, true);
//@ name=c05_uint3_shl prop=C05,C11,C15 tier=quick profile=k64 funcs="Uint::overflowing_shl,Uint::overflowing_shl_vartime,Uint::wrapping_shl" bound="Uint<3> (width not a power of two), all values, every u32 shift, symbolic bit index" free_bits=232 core=C11
uint_shl!(c05_uint3_shl, 3, false);
//@ name=c05_uint3_shr prop=C05,C11,C15 tier=quick profile=k64 funcs="Uint::overflowing_shr,Uint::overflowing_shr_vartime,Uint::wrapping_shr" bound="Uint<3> (width not a power of two), all values, every u32 shift, symbolic bit index" free_bits=232 core=C11
uint_shr!(c05_uint3_shr, 3, false);
//@ name=c05_uint4_shl prop=C05,C11,C15 tier=quick profile=k64 funcs="Uint::overflowing_shl,Uint::overflowing_shl_vartime,Uint::wrapping_shl" bound="Uint<4>, all values, every u32 shift, symbolic bit index" free_bits=296
uint_shl!(c05_uint4_shl, 4, false);
//@ name=c05_uint4_shr prop=C05,C11,C15 tier=quick profile=k64 funcs="Uint::overflowing_shr,Uint::overflowing_shr_vartime,Uint::wrapping_shr" bound="Uint<4>, all values, every u32 shift, symbolic bit index" free_bits=296
uint_shr!(c05_uint4_shr, 4, false);
//@ name=c05_uint5_shl prop=C05,C11,C15 tier=thorough profile=k64 funcs="Uint::overflowing_shl,Uint::overflowing_shl_vartime,Uint::wrapping_shl" bound="Uint<5> (width not a power of two), all values, every u32 shift, symbolic bit index" free_bits=360
uint_shl!(c05_uint5_shl, 5, false);
//@ name=c05_uint5_shr prop=C05,C11,C15 tier=thorough profile=k64 funcs="Uint::overflowing_shr,Uint::overflowing_shr_vartime,Uint::wrapping_shr" bound="Uint<5> (width not a power of two), all values, every u32 shift, symbolic bit index" free_bits=360
uint_shr!(c05_uint5_shr, 5, false);
//@ name=c05_uint6_shl prop=C05,C11,C15 tier=thorough profile=k64 funcs="Uint::overflowing_shl,Uint::overflowing_shl_vartime,Uint::wrapping_shl" bound="Uint<6> (width not a power of two), all values, every u32 shift, symbolic bit index" free_bits=424
uint_shl!(c05_uint6_shl, 6, false);
//@ name=c05_uint6_shr prop=C05,C11,C15 tier=thorough profile=k64 funcs="Uint::overflowing_shr,Uint::overflowing_shr_vartime,Uint::wrapping_shr" bound="Uint<6> (width not a power of two), all values, every u32 shift, symbolic bit index" free_bits=424
uint_shr!(c05_uint6_shr, 6, false);
//@ name=c05_uint8_shl prop=C05,C11,C15 tier=thorough profile=k64 funcs="Uint::overflowing_shl,Uint::overflowing_shl_vartime,Uint::wrapping_shl" bound="Uint<8>, all values, every u32 shift, symbolic bit index" free_bits=552
uint_shl!(c05_uint8_shl, 8, false);
//@ name=c05_uint8_shr prop=C05,C11,C15 tier=thorough profile=k64 funcs="Uint::overflowing_shr,Uint::overflowing_shr_vartime,Uint::wrapping_shr" bound="Uint<8>, all values, every u32 shift, symbolic bit index" free_bits=552
uint_shr!(c05_uint8_shr, 8, false);

//@ prop=C05,C11 tier=quick profile=k64 funcs="Uint::shl,Uint::shr,Uint::shl_vartime,Uint::shr_vartime,Shl/Shr operators (u32,i32,usize),ShlAssign,ShrAssign" bound="Uint<3>, all values, every shift < BITS: panicking forms exact and panic-free; vs u128 for the low 128 bits at Uint<2>" free_bits=230
#[kani::proof]
#[kani::unwind(12)]
fn c05_uint3_panicking_forms_in_range() {
    let x: Uint<3> = any_uint();
    let s: u32 = kani::any();
    kani::assume(s < 192);
    let l = x.overflowing_shl(s).unwrap_or(Uint::ZERO);
    let r = x.overflowing_shr(s).unwrap_or(Uint::ZERO);
    assert!(x.shl(s) == l && x.shl_vartime(s) == l);
    assert!(x.shr(s) == r && x.shr_vartime(s) == r);
    assert!(x << s == l && &x << s == l && x << (s as usize) == l && x << (s as i32) == l);
    assert!(x >> s == r && &x >> s == r && x >> (s as usize) == r && x >> (s as i32) == r);
    let mut t = x;
    t <<= s;
    assert!(t == l);
    let mut t = x;
    t >>= s;
    assert!(t == r);
    // second oracle on 2 limbs: native u128 shifts
    let y: Uint<2> = any_uint();
    let s2: u32 = kani::any();
    kani::assume(s2 < 128);
    assert!(to_u128(&y.shl(s2)) == to_u128(&y) << s2);
    assert!(to_u128(&y.shr(s2)) == to_u128(&y) >> s2);
}

//@ prop=C05,C11 tier=quick profile=k64 funcs="Uint::shl" bound="Uint<2>, all values, every shift >= BITS: shl must panic" free_bits=160 must_panic=1
#[kani::proof]
#[kani::unwind(12)]
fn c05_uint2_shl_panics_when_oversized() {
    let x: Uint<2> = any_uint();
    let s: u32 = kani::any();
    kani::assume(s >= 128);
    let _ = x.shl(s);
    must_have_panicked();
}

//@ prop=C05,C11 tier=quick profile=k64 funcs="Shr operator for Uint" bound="Uint<2>, all values, every shift >= BITS: >> must panic" free_bits=160 must_panic=1
#[kani::proof]
#[kani::unwind(12)]
fn c05_uint2_shr_op_panics_when_oversized() {
    let x: Uint<2> = any_uint();
    let s: u32 = kani::any();
    kani::assume(s >= 128);
    let _ = x >> s;
    must_have_panicked();
}

// ---- double-width shifts
macro_rules! wide_shifts {
    ($name:ident, $L:expr) => {
        #[kani::proof]
        #[kani::unwind(8)]
        fn $name() {
            const L: usize = $L;
            const W: usize = 2 * $L;
            let bits = Uint::<L>::BITS;
            let lo: Uint<L> = any_uint();
            let hi: Uint<L> = any_uint();
            let mut w = [0 as Word; W];
            let mut k = 0;
            while k < L {
                w[k] = lo.as_limbs()[k].0;
                w[L + k] = hi.as_limbs()[k].0;
                k += 1;
            }
            let s: u32 = kani::any();
            kani::assume(s != 0); // s == 0 is the isolated harness c05_wide_shift_zero
            let i: u32 = kani::any();
            kani::assume(i < 2 * bits);
            let o = Uint::<L>::overflowing_shl_vartime_wide((lo, hi), s);
            assert!(o.is_some().to_bool_vartime() == (s < 2 * bits));
            if s < 2 * bits {
                let (rl, rh) = Option::from(o).unwrap_or((Uint::ZERO, Uint::ZERO));
                let mut rw = [0 as Word; W];
                let mut k = 0;
                while k < L {
                    rw[k] = rl.as_limbs()[k].0;
                    rw[L + k] = rh.as_limbs()[k].0;
                    k += 1;
                }
                assert!(bit_of(&rw, i) == (i >= s && bit_of(&w, i - s)));
            }
            let o = Uint::<L>::overflowing_shr_vartime_wide((lo, hi), s);
            assert!(o.is_some().to_bool_vartime() == (s < 2 * bits));
            if s < 2 * bits {
                let (rl, rh) = Option::from(o).unwrap_or((Uint::ZERO, Uint::ZERO));
                let mut rw = [0 as Word; W];
                let mut k = 0;
                while k < L {
                    rw[k] = rl.as_limbs()[k].0;
                    rw[L + k] = rh.as_limbs()[k].0;
                    k += 1;
                }
                assert!(bit_of(&rw, i) == bit_of(&w, i + s));
            }
            kani::cover!(s == bits);
            kani::cover!(s == 2 * bits - 1);
            kani::cover!(s > bits && s < 2 * bits);
        }
    };
}
//@ name=c05_uint1_wide_shifts prop=C05,C11 tier=quick profile=k64 funcs="Uint::overflowing_shl_vartime_wide,Uint::overflowing_shr_vartime_wide" bound="Uint<1> pairs, all values, every shift != 0" free_bits=167 assumes="shift != 0 (shift == 0 isolated in c05_wide_shift_zero)"
wide_shifts!(c05_uint1_wide_shifts, 1);
//@ name=c05_uint2_wide_shifts prop=C05,C11 tier=quick profile=k64 funcs="Uint::overflowing_shl_vartime_wide,Uint::overflowing_shr_vartime_wide" bound="Uint<2> pairs, all values, every shift != 0" free_bits=296 assumes="shift != 0 (shift == 0 isolated in c05_wide_shift_zero)"
wide_shifts!(c05_uint2_wide_shifts, 2);
//@ name=c05_uint3_wide_shifts prop=C05,C11 tier=quick profile=k64 funcs="Uint::overflowing_shl_vartime_wide,Uint::overflowing_shr_vartime_wide" bound="Uint<3> pairs, all values, every shift != 0" free_bits=425 assumes="shift != 0 (shift == 0 isolated in c05_wide_shift_zero)"
wide_shifts!(c05_uint3_wide_shifts, 3);

//@ prop=C05,C11 tier=quick profile=k64 funcs="Uint::overflowing_shl_vartime_wide,Uint::overflowing_shr_vartime_wide" bound="Uint<2> pairs, all values, shift == 0: must return the input unchanged without panicking" free_bits=256 expect=finding:wide_shift_zero core=C11
#[kani::proof]
#[kani::unwind(8)]
fn c05_wide_shift_zero() {
    let lo: Uint<2> = any_uint();
    let hi: Uint<2> = any_uint();
    let o = Uint::<2>::overflowing_shl_vartime_wide((lo, hi), 0);
    assert!(o.is_some().to_bool_vartime());
    let (a, b) = Option::from(o).unwrap_or((Uint::ZERO, Uint::ZERO));
    assert!(a == lo && b == hi);
    let o = Uint::<2>::overflowing_shr_vartime_wide((lo, hi), 0);
    assert!(o.is_some().to_bool_vartime());
    let (a, b) = Option::from(o).unwrap_or((Uint::ZERO, Uint::ZERO));
    assert!(a == lo && b == hi);
}

// ---- internal helpers used by division
//@ prop=C05,C02,C11 tier=quick profile=k64 funcs="Uint::shl_limb,Uint::overflowing_shl1,Uint::shr1,Uint::shr1_with_carry" bound="Uint<3>, all values, every shift < Limb::BITS" free_bits=205
#[kani::proof]
#[kani::unwind(6)]
fn c05_uint3_limb_shift_helpers() {
    let x: Uint<3> = any_uint();
    let xw = words_of(&x);
    let s: u32 = kani::any();
    kani::assume(s < Limb::BITS);
    let i: u32 = kani::any();
    kani::assume(i < 192);
    let (r, carry) = x.shl_limb(s);
    let rw = words_of(&r);
    assert!(bit_of(&rw, i) == (i >= s && bit_of(&xw, i - s)));
    // carry holds the bits shifted out at the top
    let j: u32 = kani::any();
    kani::assume(j < 64);
    assert!(((carry.0 >> j) & 1 == 1) == (j < s && bit_of(&xw, 192 - s + j)));
    let (d, c) = x.overflowing_shl1();
    assert!(bit_of(&words_of(&d), i) == (i >= 1 && bit_of(&xw, i - 1)));
    assert!((c.0 == 1) == bit_of(&xw, 191) && c.0 <= 1);
    let h = x.shr1();
    assert!(bit_of(&words_of(&h), i) == bit_of(&xw, i + 1));
    let (h2, lsb) = x.shr1_with_carry();
    assert!(h2 == h && lsb.to_bool_vartime() == bit_of(&xw, 0));
    kani::cover!(s == 0 && carry.0 == 0);
    kani::cover!(s == 63 && carry.0 != 0);
}

// ---------------------------------------------------------------- bit queries
macro_rules! uint_bits {
    ($name:ident, $L:expr) => {
        #[kani::proof]
        #[kani::unwind(10)]
        fn $name() {
            const L: usize = $L;
            let bits = Uint::<L>::BITS;
            let x: Uint<L> = any_uint();
            let xw = words_of(&x);
            let zero = is_zero_words(&xw);
            let j: u32 = kani::any(); // universally quantified bit index
            kani::assume(j < bits);
            // bits / leading zeros
            let k = x.bits();
            assert!(k <= bits);
            assert!(if zero { k == 0 } else { k >= 1 && bit_of(&xw, k - 1) });
            assert!(j < k || !bit_of(&xw, j));
            assert!(x.bits_vartime() == k);
            assert!(x.leading_zeros() == bits - k && x.leading_zeros_vartime() == bits - k);
            assert!(BitOps::bits(&x) == k && BitOps::bits_vartime(&x) == k && BitOps::leading_zeros(&x) == bits - k);
            assert!(BitOps::bits_precision(&x) == bits && BitOps::bytes_precision(&x) == (bits / 8) as usize);
            // trailing zeros
            let tz = x.trailing_zeros();
            assert!(if zero { tz == bits } else { tz < bits && bit_of(&xw, tz) });
            assert!(j >= tz || !bit_of(&xw, j));
            assert!(x.trailing_zeros_vartime() == tz);
            assert!(BitOps::trailing_zeros(&x) == tz && BitOps::trailing_zeros_vartime(&x) == tz);
            // trailing ones
            let to = x.trailing_ones();
            assert!(to <= bits && (to == bits || !bit_of(&xw, to)));
            assert!(j >= to || bit_of(&xw, j));
            assert!(x.trailing_ones_vartime() == to);
            assert!(BitOps::trailing_ones(&x) == to && BitOps::trailing_ones_vartime(&x) == to);
            // bit test for any u32 index
            let idx: u32 = kani::any();
            let expect = idx < bits && bit_of(&xw, idx);
            assert!(x.bit(idx).to_bool_vartime() == expect);
            assert!(x.bit_vartime(idx) == expect);
            assert!(bool::from(BitOps::bit(&x, idx)) == expect && BitOps::bit_vartime(&x, idx) == expect);
            // set_bit
            let v: bool = kani::any();
            let y = x.set_bit(idx, ConstChoice::from_word_lsb(v as Word));
            let yw = words_of(&y);
            assert!(bit_of(&yw, j) == if j == idx { v } else { bit_of(&xw, j) });
            if idx < bits {
                let y2 = x.set_bit_vartime(idx, v);
                assert!(y2 == y);
                let mut y3 = x;
                BitOps::set_bit(&mut y3, idx, subtle::Choice::from(v as u8));
                assert!(y3 == y);
                let mut y4 = x;
                BitOps::set_bit_vartime(&mut y4, idx, v);
                assert!(y4 == y);
            }
            kani::cover!(zero);
            kani::cover!(k == bits && tz == bits - 1);
            kani::cover!(to == bits);
            kani::cover!(idx == bits + 1);
            kani::cover!(k == Limb::BITS);
        }
    };
}
//@ name=c05_uint1_bits prop=C05,C11,C15 tier=quick profile=k64 funcs="Uint::bits,Uint::bits_vartime,Uint::leading_zeros,Uint::leading_zeros_vartime,Uint::trailing_zeros,Uint::trailing_zeros_vartime,Uint::trailing_ones,Uint::trailing_ones_vartime,Uint::bit,Uint::bit_vartime,Uint::set_bit,Uint::set_bit_vartime,BitOps" bound="Uint<1>, all values, every u32 bit index" free_bits=104
uint_bits!(c05_uint1_bits, 1);
//@ name=c05_uint2_bits prop=C05,C11,C15 tier=quick profile=k64 funcs="Uint::bits,Uint::bits_vartime,Uint::leading_zeros,Uint::trailing_zeros,Uint::trailing_ones,Uint::bit,Uint::bit_vartime,Uint::set_bit,BitOps" bound="Uint<2>, all values, every u32 bit index" free_bits=169
uint_bits!(c05_uint2_bits, 2);
//@ name=c05_uint3_bits prop=C05,C11,C15 tier=quick profile=k64 funcs="Uint::bits,Uint::bits_vartime,Uint::leading_zeros,Uint::trailing_zeros,Uint::trailing_ones,Uint::bit,Uint::bit_vartime,Uint::set_bit,BitOps" bound="Uint<3>, all values, every u32 bit index" free_bits=234 core=C15
uint_bits!(c05_uint3_bits, 3);
//@ name=c05_uint5_bits prop=C05,C11,C15 tier=quick profile=k64 funcs="Uint::bits,Uint::bits_vartime,Uint::leading_zeros,Uint::trailing_zeros,Uint::trailing_ones,Uint::bit,Uint::bit_vartime,Uint::set_bit,BitOps" bound="Uint<5>, all values, every u32 bit index" free_bits=363
uint_bits!(c05_uint5_bits, 5);
//@ name=c05_uint8_bits prop=C05,C11,C15 tier=thorough profile=k64 funcs="Uint::bits,Uint::bits_vartime,Uint::leading_zeros,Uint::trailing_zeros,Uint::trailing_ones,Uint::bit,Uint::bit_vartime,Uint::set_bit,BitOps" bound="Uint<8>, all values, every u32 bit index" free_bits=555
uint_bits!(c05_uint8_bits, 8);

//@ prop=C05,C11 tier=quick profile=k64 funcs="BitAnd,BitOr,BitXor,Not for Uint,Uint::bitand,Uint::bitor,Uint::bitxor,Uint::not,wrapping_and/or/xor,checked_and/or/xor,Limb bit ops,Limb::shl,Limb::shr,Limb::bits,Limb::leading_zeros,Limb::trailing_zeros,Limb::trailing_ones" bound="Uint<3> and Limb, all values" free_bits=400
#[kani::proof]
#[kani::unwind(6)]
fn c05_bitwise_ops_and_limb() {
    let a: Uint<3> = any_uint();
    let b: Uint<3> = any_uint();
    let (aw, bw) = (words_of(&a), words_of(&b));
    let mut k = 0;
    while k < 3 {
        assert!((a & b).as_limbs()[k].0 == aw[k] & bw[k]);
        assert!((a | b).as_limbs()[k].0 == aw[k] | bw[k]);
        assert!((a ^ b).as_limbs()[k].0 == aw[k] ^ bw[k]);
        assert!((!a).as_limbs()[k].0 == !aw[k]);
        assert!(a.bitand(&b).as_limbs()[k].0 == aw[k] & bw[k]);
        assert!(a.bitor(&b).as_limbs()[k].0 == aw[k] | bw[k]);
        assert!(a.bitxor(&b).as_limbs()[k].0 == aw[k] ^ bw[k]);
        assert!(a.not().as_limbs()[k].0 == !aw[k]);
        assert!(a.wrapping_and(&b).as_limbs()[k].0 == aw[k] & bw[k]);
        assert!(a.wrapping_or(&b).as_limbs()[k].0 == aw[k] | bw[k]);
        assert!(a.wrapping_xor(&b).as_limbs()[k].0 == aw[k] ^ bw[k]);
        assert!(a.checked_and(&b).unwrap().as_limbs()[k].0 == aw[k] & bw[k]);
        assert!(a.checked_or(&b).unwrap().as_limbs()[k].0 == aw[k] | bw[k]);
        assert!(a.checked_xor(&b).unwrap().as_limbs()[k].0 == aw[k] ^ bw[k]);
        k += 1;
    }
    let w: Word = kani::any();
    let v: Word = kani::any();
    let l = Limb(w);
    assert!((l & Limb(v)).0 == w & v && (l | Limb(v)).0 == w | v && (l ^ Limb(v)).0 == w ^ v && (!l).0 == !w);
    assert!(l.bits() == 64 - w.leading_zeros() && l.leading_zeros() == w.leading_zeros());
    assert!(l.trailing_zeros() == w.trailing_zeros() && l.trailing_ones() == w.trailing_ones());
    let s: u32 = kani::any();
    kani::assume(s < 64);
    assert!(l.shl(s).0 == w << s && l.shr(s).0 == w >> s);
    assert!((l << s).0 == w << s && (l >> s).0 == w >> s);
    let (d, c) = l.shl1();
    assert!(d.0 == w << 1 && c.0 == w >> 63);
}

// ---------------------------------------------------------------- Int: arithmetic right shift, left shift
macro_rules! int_shifts {
    ($name:ident, $L:expr) => {
        #[kani::proof]
        #[kani::unwind(12)]
        fn $name() {
            const L: usize = $L;
            let bits = Int::<L>::BITS;
            let x: Int<L> = Int::from_bits(any_uint());
            let xw = words_of(x.as_uint());
            let neg = bit_of(&xw, bits - 1);
            let s: u32 = kani::any();
            let i: u32 = kani::any();
            kani::assume(i < bits);
            let o = x.overflowing_shr(s);
            assert!(o.is_some().to_bool_vartime() == (s < bits));
            let ov = x.overflowing_shr_vartime(s);
            assert!(ov.is_some().to_bool_vartime() == (s < bits));
            let w = x.wrapping_shr(s);
            let ww = words_of(w.as_uint());
            // floor(x / 2^s): bit i = bit i+s of x, sign-filled beyond the top
            let expect = if s < bits && i + s < bits { bit_of(&xw, i + s) } else { neg };
            assert!(bit_of(&ww, i) == expect);
            assert!(words_eq(&words_of(x.wrapping_shr_vartime(s).as_uint()), &ww));
            if s < bits {
                assert!(words_eq(&words_of(o.unwrap_or(Int::ZERO).as_uint()), &ww));
                assert!(words_eq(&words_of(ov.unwrap_or(Int::ZERO).as_uint()), &ww));
                assert!(x.shr(s) == w && x.shr_vartime(s) == w && x >> s == w);
                // left shift is the unsigned one on the bit pattern
                let l = x.shl(s);
                assert!(bit_of(&words_of(l.as_uint()), i) == (i >= s && bit_of(&xw, i - s)));
                assert!(x.shl_vartime(s) == l && x << s == l && x.wrapping_shl(s) == l && x.wrapping_shl_vartime(s) == l);
                assert!(x.overflowing_shl(s).is_some().to_bool_vartime());
            } else {
                assert!(!x.overflowing_shl(s).is_some().to_bool_vartime());
                assert!(!x.overflowing_shl_vartime(s).is_some().to_bool_vartime());
                assert!(x.wrapping_shl(s) == Int::ZERO && x.wrapping_shl_vartime(s) == Int::ZERO);
            }
            kani::cover!(neg && s >= bits);
            kani::cover!(neg && s == bits - 1);
            kani::cover!(!neg && s == Limb::BITS);
        }
    };
}
//@ name=c05_int1_shifts prop=C05,C13,C11 tier=quick profile=k64 funcs="Int::shr,Int::shr_vartime,Int::overflowing_shr,Int::overflowing_shr_vartime,Int::wrapping_shr,Int::wrapping_shr_vartime,Int::shl,Int::shl_vartime,Int::overflowing_shl,Int::wrapping_shl,Shl/Shr for Int" bound="Int<1>, all values, every u32 shift" free_bits=102
int_shifts!(c05_int1_shifts, 1);
//@ name=c05_int2_shifts prop=C05,C13,C11 tier=quick profile=k64 funcs="Int::shr,Int::shr_vartime,Int::overflowing_shr,Int::overflowing_shr_vartime,Int::wrapping_shr,Int::shl,Int::overflowing_shl,Int::wrapping_shl" bound="Int<2>, all values, every u32 shift" free_bits=167
int_shifts!(c05_int2_shifts, 2);
//@ name=c05_int3_shifts prop=C05,C13,C11 tier=quick profile=k64 funcs="Int::shr,Int::shr_vartime,Int::overflowing_shr,Int::overflowing_shr_vartime,Int::wrapping_shr,Int::shl,Int::overflowing_shl,Int::wrapping_shl" bound="Int<3>, all values, every u32 shift" free_bits=232
int_shifts!(c05_int3_shifts, 3);
