//! C18 — DER INTEGER codec (k64, features der + hybrid-array).  Child of `uint::encoding::der`.
use crate::__verif_common::*;
use crate::{Uint, U128, U64};
use ::der::asn1::{AnyRef, UintRef};
use ::der::{Decode, Encode, EncodeValue, Length, SliceWriter, Tag};

/// big-endian value of a byte string (<= 16 bytes)
fn be_val(b: &[u8]) -> u128 {
    let mut v: u128 = 0;
    let mut i = 0;
    while i < b.len() {
        v = (v << 8) | b[i] as u128;
        i += 1;
    }
    v
}

macro_rules! der_decode_fits {
    ($name:ident, $T:ty, $N:expr) => {
        #[kani::proof]
        #[kani::unwind(24)]
        fn $name() {
            const N: usize = $N; // bytes of the target
            let buf: [u8; N + 3] = kani::any();
            let len: usize = kani::any();
            kani::assume(len <= N + 3);
            // number of leading zero octets
            let mut lz = 0;
            let mut all = true;
            let mut i = 0;
            while i < N + 3 {
                if i < len {
                    if all && buf[i] == 0 {
                        lz += 1;
                    } else {
                        all = false;
                    }
                }
                i += 1;
            }
            let mag_len = len - lz;
            kani::assume(mag_len <= N); // longer magnitudes: isolated harness below
            if let Ok(r) = UintRef::new(&buf[..len]) {
                let v = <$T>::try_from(r);
                match v {
                    Ok(x) => assert!(to_u128(&x) == be_val(&buf[..len])),
                    Err(_) => assert!(false), // a magnitude that fits must decode
                }
                let a = AnyRef::new(Tag::Integer, r.as_bytes());
                if let Ok(a) = a {
                    if let Ok(x) = <$T>::try_from(a) {
                        assert!(to_u128(&x) == be_val(&buf[..len]));
                    }
                }
            }
            kani::cover!(mag_len == N && lz > 0);
            kani::cover!(len == 0);
        }
    };
}
//@ name=c18_der_uintref_u64_fits prop=C18,C11 tier=quick profile=k64 funcs="TryFrom<UintRef> for Uint,TryFrom<AnyRef> for Uint,Uint::from_be_byte_array" bound="U64: every byte string of length 0..=11 whose magnitude (leading zero octets stripped) has at most 8 octets: decodes to exactly its big-endian value" free_bits=92 assumes="magnitude <= 8 octets (longer ones isolated in c18_der_uintref_u64_oversize)"
der_decode_fits!(c18_der_uintref_u64_fits, U64, 8);
//@ name=c18_der_uintref_u128_fits prop=C18,C11 tier=quick profile=k64 funcs="TryFrom<UintRef> for Uint,TryFrom<AnyRef> for Uint" bound="U128: every byte string of length 0..=19 whose magnitude has at most 16 octets" free_bits=156 assumes="magnitude <= 16 octets"
der_decode_fits!(c18_der_uintref_u128_fits, U128, 16);

//@ prop=C18,C11 tier=quick profile=k64 funcs="TryFrom<UintRef> for Uint" bound="U64: every byte string of length 9..=11 whose magnitude has more than 8 octets: must be an error, never a panic or a truncated value" free_bits=92 expect=finding:der_oversize_panics core=C11
#[kani::proof]
#[kani::unwind(24)]
fn c18_der_uintref_u64_oversize() {
    let buf: [u8; 11] = kani::any();
    let len: usize = kani::any();
    kani::assume(len >= 9 && len <= 11);
    kani::assume(buf[0] != 0); // magnitude = whole string
    if let Ok(r) = UintRef::new(&buf[..len]) {
        assert!(U64::try_from(r).is_err());
    }
}

macro_rules! der_encode {
    ($name:ident, $T:ty, $N:expr) => {
        #[kani::proof]
        #[kani::unwind(24)]
        fn $name() {
            const N: usize = $N;
            let x: $T = any_uint();
            let v = to_u128(&x);
            // minimal length: number of significant octets (at least 1), plus one if the top bit is set
            let bits = 128 - v.leading_zeros() as usize;
            let sig = if bits == 0 { 1 } else { (bits + 7) / 8 };
            let top_set = bits != 0 && bits % 8 == 0;
            let want_len = sig + top_set as usize;
            assert!(x.value_len() == Ok(Length::new(want_len as u16)));
            let mut out = [0xAAu8; N + 2];
            let mut w = SliceWriter::new(&mut out);
            assert!(x.encode_value(&mut w).is_ok());
            let enc = w.finish().unwrap();
            assert!(enc.len() == want_len);
            // leading 0x00 exactly when the top bit of the first significant octet is set; then the value
            if top_set {
                assert!(enc[0] == 0);
            }
            assert!(be_val(enc) == v);
            assert!(v == 0 || enc[top_set as usize] != 0);
            // decode(encode(x)) == x
            let r = UintRef::new(enc).unwrap();
            assert!(<$T>::try_from(r).unwrap() == x);
            kani::cover!(top_set && sig == N);
            kani::cover!(v == 0);
            kani::cover!(v == 0x7f);
        }
    };
}
//@ name=c18_der_encode_u64 prop=C18,C11 tier=quick profile=k64 funcs="EncodeValue::value_len,EncodeValue::encode_value for Uint,Uint::to_be_byte_array" bound="U64: every value: canonical minimal INTEGER content octets, decode(encode) = id" free_bits=64
der_encode!(c18_der_encode_u64, U64, 8);
//@ name=c18_der_encode_u128 prop=C18,C11 tier=quick profile=k64 funcs="EncodeValue::value_len,EncodeValue::encode_value for Uint" bound="U128: every value" free_bits=128
der_encode!(c18_der_encode_u128, U128, 16);

//@ prop=C18,C11 tier=quick profile=k64 funcs="TryFrom<AnyRef> for Uint,UintRef::try_from(AnyRef)" bound="U64: every INTEGER content-octet string of length 0..=10 presented as an AnyRef (tag INTEGER or another tag): accepted exactly when canonical (non-empty, non-negative, no superfluous leading zero octet), of the right tag and at most 8 magnitude octets; then the value is the big-endian value" free_bits=85
#[kani::proof]
#[kani::unwind(24)]
fn c18_der_anyref_u64_canonical_only() {
    let buf: [u8; 10] = kani::any();
    let len: usize = kani::any();
    kani::assume(len <= 10);
    let right_tag: bool = kani::any();
    let tag = if right_tag { Tag::Integer } else { Tag::OctetString };
    let any = AnyRef::new(tag, &buf[..len]);
    kani::assume(any.is_ok());
    let r = U64::try_from(any.unwrap());
    let nonneg = len >= 1 && buf[0] < 0x80;
    let minimal = len == 1 || (len >= 2 && !(buf[0] == 0 && buf[1] < 0x80));
    let mag = if len >= 1 && buf[0] == 0 { len - 1 } else { len };
    let acceptable = right_tag && nonneg && minimal && mag <= 8;
    match r {
        Ok(x) => {
            assert!(acceptable);
            assert!(to_u128(&x) == be_val(&buf[..len]));
        }
        Err(_) => assert!(!acceptable),
    }
    kani::cover!(acceptable && len == 9);
    kani::cover!(right_tag && len == 2 && buf[0] == 0 && buf[1] < 0x80);
    kani::cover!(right_tag && len == 1 && buf[0] >= 0x80);
    kani::cover!(right_tag && len == 0);
}
