//! C17 (boxed part) — BoxedUint radix parsing with an explicit precision and without one.  k8.
use crate::__verif_common::boxed::*;
use crate::__verif_common::*;
use crate::{BoxedUint, DecodeError};

fn digit_of(c: u8) -> Option<u8> {
    match c {
        b'0'..=b'9' => Some(c - b'0'),
        b'a'..=b'z' => Some(c - b'a' + 10),
        b'A'..=b'Z' => Some(c - b'A' + 10),
        _ => None,
    }
}
/// reference value of a 2- or 3-character numeral without sign/underscore handling subtleties:
/// None = not a plain digit string in this radix
fn plain_value<const N: usize>(s: &[u8; N], radix: u8) -> Option<u32> {
    let mut v: u32 = 0;
    let mut i = 0;
    while i < N {
        match digit_of(s[i]) {
            Some(d) if d < radix => v = v * radix as u32 + d as u32,
            _ => return None,
        }
        i += 1;
    }
    Some(v)
}

macro_rules! boxed_parse_precision {
    ($name:ident, $radix:expr, $N:expr, $prec:expr, $limbs:expr) => {
        #[kani::proof]
        #[kani::unwind(6)]
        fn $name() {
            let s: [u8; $N] = kani::any();
            let mut i = 0;
            while i < $N {
                kani::assume(s[i] < 0x80 && s[i] != b'+' && s[i] != b'_');
                i += 1;
            }
            let txt = unsafe { core::str::from_utf8_unchecked(&s) };
            let r = BoxedUint::from_str_radix_with_precision_vartime(txt, $radix, $prec);
            let (is_prec, is_ok) = (matches!(r, Err(DecodeError::Precision)), r.is_ok());
            match plain_value(&s, $radix) {
                None => assert!(matches!(r, Err(DecodeError::InvalidDigit))),
                Some(v) => {
                    if v >> $prec == 0 {
                        // fits the requested precision: the value, at the precision rounded up to whole limbs
                        match r {
                            Ok(x) => {
                                assert!(x.nlimbs() == $limbs && (bword(&x, 0) as u32 | ((bword(&x, 1) as u32) << 8)) == v);
                                core::mem::forget(x);
                            }
                            Err(_) => assert!(false),
                        }
                    } else if v >> (8 * $limbs) == 0 {
                        assert!(matches!(r, Err(DecodeError::Precision))); // fits the limbs, exceeds the precision
                    } else {
                        assert!(matches!(r, Err(DecodeError::InputSize)) || matches!(r, Err(DecodeError::Precision)));
                    }
                }
            }
            kani::cover!(is_prec || $radix == 36);
            kani::cover!(is_ok);
        }
    };
}
//@ name=c17_k8_boxed_parse_r16_p10 prop=C17,C16,C11 tier=quick profile=k8 funcs="BoxedUint::from_str_radix_with_precision_vartime,radix_decode_str,SliceDecodeByLimb" bound="u8 words, radix 16, precision 10 bits (2 limbs, not a multiple of the limb size): every 3-character ASCII string without '+'/'_': value if below 2^10, else Precision" free_bits=21
boxed_parse_precision!(c17_k8_boxed_parse_r16_p10, 16, 3, 10, 2);
//@ name=c17_k8_boxed_parse_r36_p11 prop=C17,C16,C11 tier=quick profile=k8 funcs="BoxedUint::from_str_radix_with_precision_vartime" bound="u8 words, radix 36, precision 11 bits (2 limbs): every 2-character ASCII string without '+'/'_' (values up to 1295: none exceeds 2047)" free_bits=14
boxed_parse_precision!(c17_k8_boxed_parse_r36_p11, 36, 2, 11, 2);
// radix-10 boxed instances (2 characters) did not finish in 600 s; the digit decoder itself is covered through Uint (encoding__c17.rs).
