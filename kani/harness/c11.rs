//! C11 — totality harnesses of its own (arguments NOT restricted to the functional domain).  The
//! functional harnesses of every other property also run with Kani's panic / overflow / bounds /
//! unwinding checks on; C11's thorough tier re-runs all of them.
use crate::__verif_common::boxed::*;
use crate::__verif_common::*;
use crate::{BoxedUint, CheckedAdd, CheckedDiv, CheckedMul, CheckedSub, Limb, NonZero, Uint, Word, U64};

//@ prop=C11 tier=quick profile=k64 funcs="From<&[Limb]> for BoxedUint,BoxedUint::bits_vartime,BoxedUint::is_zero" bound="the empty limb slice (concrete): the value obtained must be usable without panicking" expect=finding:boxed_zero_limbs_from_empty_slice
#[kani::proof]
#[kani::unwind(8)]
fn c11_boxed_from_empty_slice_usable() {
    let e: [Limb; 0] = [];
    let z = BoxedUint::from(&e[..]);
    assert!(bool::from(z.is_zero()));
    assert!(z.bits_vartime() == 0);
    core::mem::forget(z);
}

//@ prop=C11,C04,C03 tier=quick profile=k64 funcs="CheckedAdd,CheckedSub,CheckedMul(Limb),CheckedDiv for Uint with arbitrary arguments" bound="Uint<2> / Limb: every argument value incl. zero divisors: option results, no panic" free_bits=384
#[kani::proof]
#[kani::unwind(12)]
fn c11_checked_ops_total_k64() {
    let a: Uint<2> = any_uint();
    let b: Uint<2> = any_uint();
    let _ = CheckedAdd::checked_add(&a, &b);
    let _ = CheckedSub::checked_sub(&a, &b);
    let _ = a.saturating_add(&b);
    let _ = a.saturating_sub(&b);
    let _ = a.wrapping_shl(kani::any());
    let _ = a.wrapping_shr(kani::any());
    let _ = a.overflowing_shl_vartime(kani::any());
    let _ = a.bit(kani::any());
    let _ = a.rem2k_vartime(kani::any());
    let la = Limb(kani::any());
    let lb = Limb(kani::any());
    let _ = CheckedAdd::checked_add(&la, &lb);
    let _ = CheckedSub::checked_sub(&la, &lb);
    let _ = la.saturating_add(lb);
}

//@ prop=C11,C02 tier=quick profile=k64 funcs="Uint::rem2k_vartime" bound="Uint<3>: every value, every k (u32): n mod 2^k" free_bits=224
#[kani::proof]
#[kani::unwind(8)]
fn c11_rem2k_all_k() {
    let a: Uint<3> = any_uint();
    let aw = words_of(&a);
    let k: u32 = kani::any();
    let i: u32 = kani::any();
    kani::assume(i < 192);
    let r = a.rem2k_vartime(k);
    assert!(bit_of(&words_of(&r), i) == (i < k && bit_of(&aw, i)));
    kani::cover!(k == 0);
    kani::cover!(k == 64);
    kani::cover!(k >= 192);
}

//@ prop=C11,C05 tier=quick profile=k64r funcs="Uint::shl,Uint::shr (release profile)" bound="release profile (debug assertions off, wrapping arithmetic): Uint<3>, every value, every shift >= BITS: shl must still panic" free_bits=224 must_panic=1
#[kani::proof]
#[kani::unwind(12)]
fn c11_uint3_shl_panics_when_oversized_release() {
    let x: Uint<3> = any_uint();
    let s: u32 = kani::any();
    kani::assume(s >= 192);
    let _ = x.shl(s);
    must_have_panicked();
}

//@ prop=C11,C05 tier=quick profile=k64 funcs="Uint::shl,Shl operator (non power-of-two width)" bound="Uint<3>, every value, every shift >= BITS (192..=255 included): shl must panic" free_bits=224 must_panic=1
#[kani::proof]
#[kani::unwind(12)]
fn c11_uint3_shl_panics_when_oversized() {
    let x: Uint<3> = any_uint();
    let s: u32 = kani::any();
    kani::assume(s >= 192);
    let _ = x << s;
    must_have_panicked();
}

//@ prop=C11,C02 tier=quick profile=k64 funcs="Div<NonZero<Uint>>,Uint::wrapping_rem_vartime" bound="Uint<1>, zero divisor: wrapping_rem_vartime must panic as documented" must_panic=1
#[kani::proof]
#[kani::unwind(8)]
fn c11_wrapping_rem_vartime_zero_panics() {
    let a: U64 = any_uint();
    let _ = a.wrapping_rem_vartime(&U64::ZERO);
    must_have_panicked();
}
