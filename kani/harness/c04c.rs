//! C04 (and the C02/C03 "checked ... operator forms") — the `Checked<T>` wrapper: every
//! by-value / by-reference / assigning operator form is `none` exactly when an operand already
//! was `none` or the true result is out of range, for every combination of operand states.
use crate::__verif_common::*;
use crate::{Checked, Int, Limb, Uint, Word};
use subtle::{Choice, CtOption};

fn mk<T>(v: T, some: bool) -> Checked<T> {
    Checked(CtOption::new(v, Choice::from(some as u8)))
}
fn st<T: Copy + Default + subtle::ConditionallySelectable>(c: &Checked<T>) -> (bool, T) {
    let s = bool::from(c.0.is_some());
    (s, c.0.unwrap_or(T::default()))
}

/// $op over all four reference forms; expected (some, value) given by $exp
macro_rules! four_forms {
    ($x:ident, $y:ident, $op:tt, $ok:expr, $want:expr, $eq:expr) => {{
        let r1 = $x $op $y;
        let r2 = $x $op &$y;
        let r3 = &$x $op $y;
        let r4 = &$x $op &$y;
        for r in [r1, r2, r3, r4] {
            let (s, v) = st(&r);
            assert!(s == $ok);
            if $ok {
                assert!($eq(v, $want));
            }
        }
    }};
}

//@ prop=C04,C11 tier=quick profile=k64 funcs="Add/Sub (4 forms) for Checked<Limb>,AddAssign/SubAssign (2 forms) for Checked<Limb>" bound="Checked<Limb>: every a, b and every some/none state of both operands" free_bits=130
#[kani::proof]
fn c04_checked_limb_forms() {
    let (a, b): (Word, Word) = (kani::any(), kani::any());
    let (fa, fb): (bool, bool) = (kani::any(), kani::any());
    let x = mk(Limb(a), fa);
    let y = mk(Limb(b), fb);
    let add_ok = fa && fb && a.checked_add(b).is_some();
    let sub_ok = fa && fb && a >= b;
    let eq = |v: Limb, w: Word| v.0 == w;
    four_forms!(x, y, +, add_ok, a.wrapping_add(b), eq);
    four_forms!(x, y, -, sub_ok, a.wrapping_sub(b), eq);
    let mut z = x;
    z += y;
    assert!(st(&z).0 == add_ok && (!add_ok || st(&z).1.0 == a.wrapping_add(b)));
    let mut z = x;
    z += &y;
    assert!(st(&z).0 == add_ok && (!add_ok || st(&z).1.0 == a.wrapping_add(b)));
    let mut z = x;
    z -= y;
    assert!(st(&z).0 == sub_ok && (!sub_ok || st(&z).1.0 == a.wrapping_sub(b)));
    let mut z = x;
    z -= &y;
    assert!(st(&z).0 == sub_ok && (!sub_ok || st(&z).1.0 == a.wrapping_sub(b)));
    kani::cover!(fa && !fb);
    kani::cover!(!fa && fb);
    kani::cover!(add_ok);
}

macro_rules! checked_uint_forms {
    ($name:ident, $L:expr) => {
        #[kani::proof]
        #[kani::unwind(6)]
        fn $name() {
            let a: Uint<$L> = any_uint();
            let b: Uint<$L> = any_uint();
            let (fa, fb): (bool, bool) = (kani::any(), kani::any());
            let x = mk(a, fa);
            let y = mk(b, fb);
            let (sum, c) = ref_add(&words_of(&a), &words_of(&b), 0);
            let (dif, bo) = ref_sub(&words_of(&a), &words_of(&b), 0);
            let add_ok = fa && fb && c == 0;
            let sub_ok = fa && fb && bo == 0;
            let eq = |v: Uint<$L>, w: [Word; $L]| words_eq(&words_of(&v), &w);
            four_forms!(x, y, +, add_ok, sum, eq);
            four_forms!(x, y, -, sub_ok, dif, eq);
            let mut z = x;
            z += y;
            assert!(st(&z).0 == add_ok && (!add_ok || words_eq(&words_of(&st(&z).1), &sum)));
            let mut z = x;
            z += &y;
            assert!(st(&z).0 == add_ok && (!add_ok || words_eq(&words_of(&st(&z).1), &sum)));
            let mut z = x;
            z -= y;
            assert!(st(&z).0 == sub_ok && (!sub_ok || words_eq(&words_of(&st(&z).1), &dif)));
            let mut z = x;
            z -= &y;
            assert!(st(&z).0 == sub_ok && (!sub_ok || words_eq(&words_of(&st(&z).1), &dif)));
            kani::cover!(fa && !fb);
            kani::cover!(!fa && fb);
            kani::cover!(add_ok);
            kani::cover!(sub_ok);
        }
    };
}
//@ name=c04_checked_uint2_forms prop=C04,C11 tier=quick profile=k64 funcs="Add/Sub (4 forms) for Checked<Uint>,AddAssign/SubAssign (2 forms) for Checked<Uint>" bound="Checked<Uint<2>>: every a, b and every some/none state of both operands" free_bits=258
checked_uint_forms!(c04_checked_uint2_forms, 2);
//@ name=c04_checked_uint3_forms prop=C04,C11 tier=thorough profile=k64 funcs="Add/Sub (4 forms) for Checked<Uint>,AddAssign/SubAssign (2 forms) for Checked<Uint>" bound="Checked<Uint<3>>: every a, b and every some/none state of both operands" free_bits=386
checked_uint_forms!(c04_checked_uint3_forms, 3);

//@ prop=C04,C13,C11 tier=quick profile=k64 funcs="Add/Sub (4 forms) for Checked<Int>,AddAssign/SubAssign (2 forms) for Checked<Int>" bound="Checked<Int<1>> against i64 checked arithmetic: every a, b and every some/none state" free_bits=130
#[kani::proof]
#[kani::unwind(6)]
fn c04_checked_int1_forms() {
    let (a, b): (i64, i64) = (kani::any(), kani::any());
    let (fa, fb): (bool, bool) = (kani::any(), kani::any());
    let x = mk(Int::<1>::from_i64(a), fa);
    let y = mk(Int::<1>::from_i64(b), fb);
    let add_ok = fa && fb && a.checked_add(b).is_some();
    let sub_ok = fa && fb && a.checked_sub(b).is_some();
    let eq = |v: Int<1>, w: i64| v.as_uint().as_words()[0] == w as u64;
    four_forms!(x, y, +, add_ok, a.wrapping_add(b), eq);
    four_forms!(x, y, -, sub_ok, a.wrapping_sub(b), eq);
    let mut z = x;
    z += y;
    assert!(st(&z).0 == add_ok);
    let mut z = x;
    z += &y;
    assert!(st(&z).0 == add_ok);
    let mut z = x;
    z -= y;
    assert!(st(&z).0 == sub_ok);
    let mut z = x;
    z -= &y;
    assert!(st(&z).0 == sub_ok && (!sub_ok || eq(st(&z).1, a.wrapping_sub(b))));
    kani::cover!(fa && !fb && a.checked_add(b).is_some());
    kani::cover!(add_ok);
}

