//! C08 — Montgomery forms canonical and faithful.  k8 (8-bit words, oracle u32 %), one inductive
//! step from an arbitrary valid state (any x < m is the Montgomery form of some residue).
//! Child of `modular::monty_form` (reaches the private parameter fields, `reduction::montgomery_reduction`, `mul::*`).
use super::{MontyForm, MontyParams};
use crate::modular::mul::{mul_montgomery_form, square_montgomery_form};
use crate::modular::reduction::montgomery_reduction;
use crate::__verif_common::*;
use crate::{Limb, Monty, MontyMultiplier, Odd, Square, SquareAssign, Uint, Word};
use subtle::ConstantTimeEq;

const R1: u32 = 1 << 8;

fn odd1(m: Word) -> Odd<Uint<1>> {
    Odd::new(Uint::<1>::new([Limb(m)])).unwrap()
}

//@ prop=C08,C15,C11 tier=quick profile=k8 funcs="MontyParams::new,MontyParams::new_vartime,Uint::inv_mod2k_vartime,Uint::inv_mod2k_full_vartime,montgomery_reduction,Monty::new_params_vartime" bound="u8 words, 1 limb: every odd modulus m >= 3 (exhaustive): constant-time and vartime constructors identical and equal to the definitions" free_bits=7 assumes="m != 1 (isolated in c08_k8_params_modulus_one)" core=C15
#[kani::proof]
#[kani::unwind(12)]
fn c08_k8_params_1_all_moduli() {
    let m: Word = kani::any();
    kani::assume(m & 1 == 1 && m >= 3);
    let p = MontyParams::new(odd1(m));
    let v = MontyParams::<1>::new_vartime(odd1(m));
    let t = <MontyForm<1> as Monty>::new_params_vartime(odd1(m));
    assert!(p == v && p == t && bool::from(p.ct_eq(&v)));
    assert!(p.mod_leading_zeros == v.mod_leading_zeros);
    let mm = m as u32;
    assert!(to_u64(&p.one) as u32 == R1 % mm);
    assert!(to_u64(&p.r2) as u32 == (R1 * R1) % mm);
    assert!(to_u64(&p.r3) as u32 == ((R1 * R1 % mm) * R1) % mm);
    assert!((p.mod_neg_inv.0 as u32 * mm + 1) % R1 == 0); // -m^-1 mod 2^w
    let lz = m.leading_zeros();
    assert!(p.mod_leading_zeros == if lz < 7 { lz } else { 7 });
    assert!(p.modulus().as_ref().as_limbs()[0].0 == m);
    kani::cover!(m == 0xff);
    kani::cover!(m == 3);
}

//@ prop=C08 tier=quick profile=k8 funcs="MontyParams::new,MontyForm::one" bound="u8 words, 1 limb, modulus m = 1: every stored value must be canonical (< m), in particular one()" expect=finding:monty_one_modulus_1
#[kani::proof]
#[kani::unwind(12)]
fn c08_k8_params_modulus_one() {
    let p = MontyParams::new(odd1(1));
    let one = MontyForm::one(p);
    assert!(to_u64(one.as_montgomery()) < 1);
}

/// Textbook REDC on the whole operand (R = 2^8): T*R^-1 mod m for T < m*R, given N' = -m^-1 mod R.
/// Division-free; differs from the implementation (no limb loop, no meta carry, no sub_mod_with_carry).
fn redc1(t: u32, m: u32, ninv: u32) -> u32 {
    let u = ((t & 0xff) * ninv) & 0xff;
    let s = (t + u * m) >> 8;
    if s >= m { s - m } else { s }
}
/// Same for R = 2^16 with N' = -m^-1 mod 2^16.
fn redc2(t: u64, m: u64, ninv16: u64) -> u64 {
    let u = ((t & 0xffff) * ninv16) & 0xffff;
    let s = (t + u * m) >> 16;
    if s >= m { s - m } else { s }
}
fn addm(a: u32, b: u32, m: u32) -> u32 {
    let s = a + b;
    if s >= m { s - m } else { s }
}

fn reduction_1(m: Word) {
    let lo: Word = kani::any();
    let hi: Word = kani::any();
    kani::assume(m & 1 == 1 && hi < m);
    // -m^-1 mod 2^8 supplied as an arbitrary word constrained by its definition (no derivation code here)
    let ninv: Word = kani::any();
    kani::assume((ninv.wrapping_mul(m)).wrapping_add(1) == 0);
    let r = montgomery_reduction(&(Uint::<1>::new([Limb(lo)]), Uint::<1>::new([Limb(hi)])), &odd1(m), Limb(ninv));
    let rv = to_u64(&r) as u32;
    let t = ((hi as u32) << 8) | lo as u32;
    assert!(rv < m as u32);
    assert!(rv == redc1(t, m as u32, ninv as u32));
    kani::cover!(hi == m - 1 && lo == 0xff);
    kani::cover!(rv == 0 && t != 0);
}

//@ prop=C08,C11 tier=quick profile=k8 funcs="montgomery_reduction,montgomery_reduction_inner,Uint::sub_mod_with_carry" bound="u8 words, 1 limb: every odd m, every lo, every hi < m (the function's full domain), against textbook REDC" free_bits=23
#[kani::proof]
#[kani::unwind(6)]
fn c08_k8_reduction_1_all() {
    reduction_1(kani::any());
}

//@ prop=C08,C11 tier=quick profile=k8 funcs="montgomery_reduction (2 limbs),montgomery_reduction_inner" bound="u8 words, 2 limbs: m=[S(2)|1, S(2)^sign], lo limbs S(2), hi limbs S(1) < m, against textbook REDC with R=2^16" free_bits=19
#[kani::proof]
#[kani::unwind(8)]
fn c08_k8_reduction_2_shaped() {
    let m = Uint::<2>::new([Limb(shaped_word(2) | 1), Limb(shaped_signed_top(2))]);
    let mm = to_u64(&m);
    let lo: Uint<2> = shaped(2);
    let hi: Uint<2> = shaped(1);
    kani::assume(to_u64(&hi) < mm);
    let ninv16: u16 = kani::any();
    kani::assume(ninv16.wrapping_mul(mm as u16).wrapping_add(1) == 0);
    let r = montgomery_reduction(&(lo, hi), &Odd::new(m).unwrap(), Limb(ninv16 as Word));
    let t = (to_u64(&hi) << 16) | to_u64(&lo);
    assert!(to_u64(&r) < mm && to_u64(&r) == redc2(t, mm, ninv16 as u64));
    kani::cover!(mm > 0xff00);
    kani::cover!(mm < 0x100 && mm > 1);
}

//@ prop=C08,C11,C15 tier=quick profile=k8 funcs="MontyForm::add,sub,neg,double,div_by_2,retrieve,new,zero,one,conditional_select,AddAssign,SubAssign" bound="u8 words, 1 limb: every odd m >= 3, every pair of stored values x,y < m: each result canonical and equal to the operation in Z/mZ transported through the Montgomery map (linear operations commute with it)" free_bits=23
#[kani::proof]
#[kani::unwind(12)]
fn c08_k8_step_1_linear() {
    let m: Word = kani::any();
    kani::assume(m & 1 == 1 && m >= 3);
    let mm = m as u32;
    let params = MontyParams::new(odd1(m));
    let x: Word = kani::any();
    let y: Word = kani::any();
    kani::assume(x < m && y < m);
    let (xv, yv) = (x as u32, y as u32);
    let fx = MontyForm::from_montgomery(Uint::<1>::new([Limb(x)]), params);
    let fy = MontyForm::from_montgomery(Uint::<1>::new([Limb(y)]), params);
    let st = |f: &MontyForm<1>| to_u64(f.as_montgomery()) as u32;
    assert!(st(&fx.add(&fy)) == addm(xv, yv, mm) && st(&(fx + fy)) == addm(xv, yv, mm));
    assert!(st(&fx.sub(&fy)) == addm(xv, mm - yv, mm) % mm || (yv == 0 && st(&fx.sub(&fy)) == xv));
    assert!(st(&(fx - fy)) == st(&fx.sub(&fy)) && st(&fx.sub(&fy)) < mm);
    assert!(addm(st(&fx.sub(&fy)), yv, mm) == xv); // (x - y) + y = x
    assert!(addm(st(&fx.neg()), xv, mm) == 0 && st(&fx.neg()) < mm && st(&(-fx)) == st(&fx.neg()));
    assert!(st(&fx.double()) == addm(xv, xv, mm));
    let h = st(&fx.div_by_2());
    assert!(h < mm && addm(h, h, mm) == xv);
    let mut z = fx;
    z += fy;
    assert!(st(&z) == addm(xv, yv, mm));
    let mut z = fx;
    z -= fy;
    assert!(st(&z) == st(&fx.sub(&fy)));
    // the Montgomery map itself
    let ninv = params.mod_neg_inv.0 as u32;
    assert!(to_u64(&fx.retrieve()) as u32 == redc1(xv, mm, ninv));
    let v: Word = kani::any();
    let fv = MontyForm::new(&Uint::<1>::new([Limb(v)]), params);
    assert!(st(&fv) == redc1(v as u32 * to_u64(&params.r2) as u32, mm, ninv));
    assert!(st(&MontyForm::zero(params)) == 0 && st(&MontyForm::one(params)) == to_u64(&params.one) as u32);
    let c: bool = kani::any();
    let sel = <MontyForm<1> as subtle::ConditionallySelectable>::conditional_select(&fx, &fy, subtle::Choice::from(c as u8));
    assert!(st(&sel) == if c { yv } else { xv });
    kani::cover!(m == 0xff && x == 0xfe);
    kani::cover!(v >= m);
}

//@ prop=C08,C11,C15 tier=quick profile=k8 funcs="MontyForm::mul,square,MulAssign,Square,SquareAssign,DynMontyMultiplier::mul_assign,square_assign,mul_montgomery_form,square_montgomery_form" bound="u8 words, 1 limb: every odd m >= 3, every pair of stored values x,y < m: stored result = REDC(x*y) < m" free_bits=23
#[kani::proof]
#[kani::unwind(12)]
fn c08_k8_step_1_mul() {
    let m: Word = kani::any();
    kani::assume(m & 1 == 1 && m >= 3);
    let mm = m as u32;
    let params = MontyParams::new(odd1(m));
    let ninv = params.mod_neg_inv.0 as u32;
    let x: Word = kani::any();
    let y: Word = kani::any();
    kani::assume(x < m && y < m);
    let (xv, yv) = (x as u32, y as u32);
    let (ux, uy) = (Uint::<1>::new([Limb(x)]), Uint::<1>::new([Limb(y)]));
    let fx = MontyForm::from_montgomery(ux, params);
    let fy = MontyForm::from_montgomery(uy, params);
    let st = |f: &MontyForm<1>| to_u64(f.as_montgomery()) as u32;
    let want = redc1(xv * yv, mm, ninv);
    let wsq = redc1(xv * xv, mm, ninv);
    assert!(want < mm);
    assert!(st(&fx.mul(&fy)) == want && st(&(fx * fy)) == want && st(&(&fx * &fy)) == want);
    assert!(st(&fx.square()) == wsq && st(&Square::square(&fx)) == wsq);
    let mut z = fx;
    z *= fy;
    assert!(st(&z) == want);
    let mut z2 = fx;
    z2.square_assign();
    assert!(st(&z2) == wsq);
    let mut mult = <MontyForm<1> as Monty>::Multiplier::from(&params);
    let mut z3 = fx;
    mult.mul_assign(&mut z3, &fy);
    assert!(st(&z3) == want);
    let mut z4 = fx;
    mult.square_assign(&mut z4);
    assert!(st(&z4) == wsq);
    assert!(to_u64(&mul_montgomery_form(&ux, &uy, params.modulus(), params.mod_neg_inv)) as u32 == want);
    assert!(to_u64(&square_montgomery_form(&ux, params.modulus(), params.mod_neg_inv)) as u32 == wsq);
    kani::cover!(m == 0xff && x == 0xfe && y == 0xfe);
    kani::cover!(want == 0 && x != 0 && y != 0);
}

//@ prop=C08,C11 tier=quick profile=k8 funcs="MontyForm::new,retrieve,mul,add" bound="u8 words, 1 limb, semantic link with % arithmetic: m = S(1)|1 with free top bit (>= 3), every integer a,b: retrieve(new(a) op new(b)) = (a op b) mod m" free_bits=19
#[kani::proof]
#[kani::unwind(12)]
fn c08_k8_semantic_link_1() {
    let m: Word = shaped_signed_top(1) | 1;
    kani::assume(m >= 3);
    let mm = m as u32;
    let params = MontyParams::new(odd1(m));
    let a: Word = kani::any();
    let b: Word = kani::any();
    let fa = MontyForm::new(&Uint::<1>::new([Limb(a)]), params);
    let fb = MontyForm::new(&Uint::<1>::new([Limb(b)]), params);
    assert!(to_u64(&fa.retrieve()) as u32 == a as u32 % mm);
    assert!(to_u64(&(fa * fb).retrieve()) as u32 == (a as u32 * b as u32) % mm);
    assert!(to_u64(&(fa + fb).retrieve()) as u32 == (a as u32 + b as u32) % mm);
    assert!(to_u64(&MontyForm::one(params).retrieve()) as u32 == 1);
}

//@ prop=C08,C11 tier=quick profile=k8 funcs="MontyParams::new,MontyParams::new_vartime,MontyForm::new,retrieve,mul,square,add (2 limbs)" bound="u8 words, 2 limbs: m=[S(2)|1, S(2)^sign] >= 3, stored values x,y with limbs S(1), < m; against textbook REDC with R = 2^16" free_bits=16
#[kani::proof]
#[kani::unwind(20)]
fn c08_k8_step_2() {
    let m = Uint::<2>::new([Limb(shaped_word(2) | 1), Limb(shaped_signed_top(2))]);
    let mm = to_u64(&m);
    kani::assume(mm >= 3);
    let params = MontyParams::new(Odd::new(m).unwrap());
    let pv = MontyParams::<2>::new_vartime(Odd::new(m).unwrap());
    assert!(params == pv && params.mod_leading_zeros == pv.mod_leading_zeros);
    let ninv16: u16 = kani::any();
    kani::assume(ninv16.wrapping_mul(mm as u16).wrapping_add(1) == 0);
    assert!(params.mod_neg_inv.0 as u16 == ninv16 & 0xff);
    // one = R mod m, r2 = R^2 mod m, stated through REDC: REDC(one * 1) * ... (division-free): one < m, r2 < m,
    // REDC(r2) = one and REDC(one) = 1 mod m
    let (one, r2) = (to_u64(&params.one), to_u64(&params.r2));
    assert!(one < mm && r2 < mm);
    assert!(redc2(r2, mm, ninv16 as u64) == one && redc2(one, mm, ninv16 as u64) == if mm == 1 { 0 } else { 1 });
    assert!(redc2(to_u64(&params.r3), mm, ninv16 as u64) == r2 && to_u64(&params.r3) < mm);
    let x: Uint<2> = shaped(1);
    let y: Uint<2> = shaped(1);
    let (xv, yv) = (to_u64(&x), to_u64(&y));
    kani::assume(xv < mm && yv < mm);
    let fx = MontyForm::from_montgomery(x, params);
    let fy = MontyForm::from_montgomery(y, params);
    assert!(to_u64(&fx.retrieve()) == redc2(xv, mm, ninv16 as u64));
    assert!(to_u64((fx * fy).as_montgomery()) == redc2(xv * yv, mm, ninv16 as u64));
    assert!(to_u64(fx.square().as_montgomery()) == redc2(xv * xv, mm, ninv16 as u64));
    let s = xv + yv;
    assert!(to_u64((fx + fy).as_montgomery()) == if s >= mm { s - mm } else { s });
    let v: Uint<2> = shaped(1);
    assert!(to_u64(MontyForm::new(&v, params).as_montgomery()) == redc2(to_u64(&v) * r2, mm, ninv16 as u64));
    kani::cover!(mm > 0xff00);
    kani::cover!(mm < 0x100);
}

