//! C02 — unsigned division exact.  k8: the generic Knuth / Moeller-Granlund code on 8-bit words.
use crate::__verif_common::*;
use crate::uint::div_limb::{div2by1, div3by2};
use crate::{CheckedDiv, DivRemLimb, Limb, NonZero, Reciprocal, RemLimb, Uint, WideWord, Word, Wrapping};

fn nz<const L: usize>(d: Uint<L>) -> NonZero<Uint<L>> {
    NonZero::new(d).unwrap()
}

/// n == q*d + r (exact, in u64) and r < d.  Only for values < 2^32.
fn exact(n: u64, d: u64, q: u64, r: u64) -> bool {
    r < d && q <= n && q * d + r == n
}

// ---------------------------------------------------------------- kernels

//@ prop=C02,C11,C14,C07,C20,C17 tier=quick profile=k8 funcs="div2by1,Reciprocal::new,reciprocal(k8 definition)" bound="u8 words: every (u1,u0,d) with d normalised and u1<d" free_bits=23 core=C14,C07,C17
#[kani::proof]
fn c02_k8_div2by1_all() {
    let d: Word = kani::any();
    let u1: Word = kani::any();
    let u0: Word = kani::any();
    kani::assume(d >= 0x80 && u1 < d);
    let rec = Reciprocal::new(NonZero::new(Limb(d)).unwrap());
    let (q, r) = div2by1(u1, u0, &rec);
    let u = ((u1 as u32) << 8) | u0 as u32;
    assert!((q as u32) * (d as u32) + (r as u32) == u);
    assert!(r < d);
    kani::cover!(d == Word::MAX && q == Word::MAX);
    kani::cover!(d == 0x80);
}

macro_rules! div3by2_shape {
    ($name:ident, $ku2:expr, $ku1:expr, $ku0:expr, $kv0:expr) => {
        #[kani::proof]
        #[kani::unwind(4)]
        fn $name() {
            let v1: Word = kani::any();
            kani::assume(v1 >= 0x80);
            let v0: Word = shaped_word($kv0);
            let u2: Word = shaped_word($ku2);
            let u1: Word = shaped_word($ku1);
            let u0: Word = shaped_word($ku0);
            let v: u32 = ((v1 as u32) << 8) | v0 as u32;
            let u: u32 = ((u2 as u32) << 16) | ((u1 as u32) << 8) | u0 as u32;
            // documented precondition: floor(u / v) <= Limb::MAX (and hence u2 <= v1)
            kani::assume(u2 <= v1);
            kani::assume(u / v <= 0xff);
            let rec = Reciprocal::new(NonZero::new(Limb(v1)).unwrap());
            let q = div3by2(u2, u1, u0, &rec, v0) as u32;
            let t = u / v;
            assert!(q == t || q == t + 1);
            kani::cover!(u2 == v1); // q_maxed path
            kani::cover!(q == t && u2 < v1);
        }
    };
}
//@ name=c02_k8_div3by2_a prop=C02,C11,C14,C07,C20,C17 tier=quick profile=k8 funcs="div3by2,div2by1" bound="u8 words: v1 all normalised values, v0=S(3), u2=S(3), u1=S(3), u0=S(2), under the documented precondition u/v<=MAX" free_bits=22 core=C14,C07,C20
div3by2_shape!(c02_k8_div3by2_a, 3, 3, 2, 3);
//@ name=c02_k8_div3by2_b prop=C02,C11 tier=thorough profile=k8 funcs="div3by2,div2by1" bound="u8 words: v1 all normalised, v0 free, u2=S(2), u1=S(2), u0=S(2)" free_bits=24
div3by2_shape!(c02_k8_div3by2_b, 2, 2, 2, 8);
//@ name=c02_k8_div3by2_c prop=C02,C11 tier=thorough profile=k8 funcs="div3by2,div2by1" bound="u8 words: v1 all normalised, v0=S(1), u2 free, u1=S(2), u0=S(1)" free_bits=23
div3by2_shape!(c02_k8_div3by2_c, 8, 2, 1, 1);

//@ prop=C02,C11,C14,C20 tier=quick profile=k8 funcs="div3by2" bound="u8 words: q_maxed path only (u2 == v1), v1 all normalised, u1 free, v0 free, u0=S(2)" free_bits=26 core=C14
#[kani::proof]
#[kani::unwind(4)]
fn c02_k8_div3by2_qmaxed() {
    let v1: Word = kani::any();
    kani::assume(v1 >= 0x80);
    let v0: Word = kani::any();
    let u1: Word = kani::any();
    let u0: Word = shaped_word(2);
    let u2 = v1;
    let v: u32 = ((v1 as u32) << 8) | v0 as u32;
    let u: u32 = ((u2 as u32) << 16) | ((u1 as u32) << 8) | u0 as u32;
    kani::assume(u / v <= 0xff);
    let rec = Reciprocal::new(NonZero::new(Limb(v1)).unwrap());
    let q = div3by2(u2, u1, u0, &rec, v0) as u32;
    let t = u / v;
    assert!(q == t || q == t + 1);
    kani::cover!((u2 as u32) + (u1 as u32) > 0xff); // the remainder sum carries
    kani::cover!(t == 0xff);
    kani::cover!(t < 0xff);
}

// ---------------------------------------------------------------- Uint<1>: everything, all values

//@ prop=C02,C11,C15 tier=quick profile=k8 funcs="Uint::div_rem,Uint::div_rem_vartime,Uint::rem,Uint::rem_vartime,Uint::div_rem_limb,Uint::rem_limb,Uint::div_rem_limb_with_reciprocal,Uint::rem_limb_with_reciprocal,Uint::wrapping_div,Uint::wrapping_div_vartime,Uint::wrapping_rem_vartime,Uint::checked_div,Uint::checked_rem,Div/Rem operators,DivRemLimb,RemLimb" bound="u8 words, Uint<1>: every n and every d != 0" free_bits=16 core=C15
#[kani::proof]
#[kani::unwind(4)]
fn c02_k8_uint1_all_forms() {
    let n: Uint<1> = any_uint();
    let d: Uint<1> = any_uint();
    let (nv, dv) = (to_u64(&n), to_u64(&d));
    kani::assume(dv != 0);
    let dz = nz(d);
    let dl = NonZero::new(d.as_limbs()[0]).unwrap();
    let (q, r) = n.div_rem(&dz);
    assert!(exact(nv, dv, to_u64(&q), to_u64(&r)));
    let (qv, rv) = n.div_rem_vartime(&dz);
    assert!(qv == q && rv == r);
    assert!(n.rem(&dz) == r && n.rem_vartime(&dz) == r);
    let (ql, rl) = n.div_rem_limb(dl);
    assert!(ql == q && rl.0 as u64 == to_u64(&r));
    assert!(n.rem_limb(dl) == rl);
    let rec = Reciprocal::new(dl);
    assert!(n.div_rem_limb_with_reciprocal(&rec) == (ql, rl));
    assert!(n.rem_limb_with_reciprocal(&rec) == rl);
    assert!(DivRemLimb::div_rem_limb(&n, dl) == (ql, rl));
    assert!(RemLimb::rem_limb(&n, dl) == rl);
    assert!(n.wrapping_div(&dz) == q && n.wrapping_div_vartime(&dz) == q);
    assert!(n.wrapping_rem_vartime(&d) == r);
    assert!(n.checked_div(&d).unwrap() == q);
    assert!(CheckedDiv::checked_div(&n, &d).unwrap() == q);
    assert!(n.checked_rem(&d).unwrap() == r);
    assert!(n / dz == q && &n / &dz == q && n / &dz == q && &n / dz == q);
    assert!(n % dz == r && &n % &dz == r && n % &dz == r && &n % dz == r);
    assert!(n / dl == q && n % dl == rl);
    assert!((Wrapping(n) / dz).0 == q && (Wrapping(n) % dz).0 == r);
    let mut t = n;
    t /= dz;
    assert!(t == q);
    let mut t2 = n;
    t2 %= &dz;
    assert!(t2 == r);
    kani::cover!(nv < dv);
    kani::cover!(to_u64(&r) == 0 && to_u64(&q) > 1);
    kani::cover!(dv == 1);
}

//@ prop=C02,C11 tier=quick profile=k8 funcs="Uint::checked_div,Uint::checked_rem,CheckedDiv" bound="u8 words, Uint<1..2>: zero divisor, every n: none and no panic" free_bits=16 core=C11
#[kani::proof]
#[kani::unwind(8)]
fn c02_k8_checked_zero_divisor() {
    let n: Uint<2> = any_uint();
    let z = Uint::<2>::ZERO;
    assert!(bool::from(n.checked_div(&z).is_none()));
    assert!(bool::from(n.checked_rem(&z).is_none()));
    assert!(bool::from(CheckedDiv::checked_div(&n, &z).is_none()));
    let n1: Uint<1> = any_uint();
    let z1 = Uint::<1>::ZERO;
    assert!(bool::from(n1.checked_div(&z1).is_none()));
    assert!(bool::from(n1.checked_rem(&z1).is_none()));
}

// ---------------------------------------------------------------- Uint<2>

//@ prop=C02,C11,C15 tier=quick profile=k8 funcs="Uint::div_rem,Uint::div_rem_vartime,Uint::rem,Uint::rem_vartime" bound="u8 words, Uint<2>: n = [S(3), free], d = [S(2), free], d != 0" free_bits=23
#[kani::proof]
#[kani::unwind(6)]
fn c02_k8_uint2_div_rem() {
    let n = Uint::<2>::new([Limb(shaped_word(3)), Limb(kani::any())]);
    let d = Uint::<2>::new([Limb(shaped_word(2)), Limb(kani::any())]);
    let (nv, dv) = (to_u64(&n), to_u64(&d));
    kani::assume(dv != 0);
    let dz = nz(d);
    let (q, r) = n.div_rem(&dz);
    assert!(exact(nv, dv, to_u64(&q), to_u64(&r)));
    let (qv, rv) = n.div_rem_vartime(&dz);
    assert!(qv == q && rv == r);
    kani::cover!(dv < 0x100); // single-limb divisor inside the 2-limb width
    kani::cover!(dv >= 0x8000);
    kani::cover!(nv < dv);
}

//@ prop=C02,C11 tier=thorough profile=k8 funcs="Uint::div_rem_limb,Uint::rem_limb,div_rem_limb_with_reciprocal,rem_limb_with_reciprocal,Uint::shl_limb" bound="u8 words, Uint<2> by one limb: every n, every d != 0" free_bits=24
#[kani::proof]
#[kani::unwind(4)]
fn c02_k8_uint2_by_limb_all() {
    by_limb2(kani::any());
}

//@ prop=C02,C11 tier=quick profile=k8 funcs="Uint::div_rem_limb,Uint::rem_limb,div_rem_limb_with_reciprocal,rem_limb_with_reciprocal,Uint::shl_limb" bound="u8 words, Uint<2> by one limb: every n, d = S(3) != 0" free_bits=20
#[kani::proof]
#[kani::unwind(4)]
fn c02_k8_uint2_by_limb_shaped() {
    by_limb2(shaped_word(3));
}

fn by_limb2(d: Word) {
    let n: Uint<2> = any_uint();
    kani::assume(d != 0);
    let dl = NonZero::new(Limb(d)).unwrap();
    let (q, r) = n.div_rem_limb(dl);
    assert!(exact(to_u64(&n), d as u64, to_u64(&q), r.0 as u64));
    assert!(n.rem_limb(dl) == r);
    kani::cover!(d == 1);
    kani::cover!(d == 0xff && r.0 == 0xfe);
}

// ---------------------------------------------------------------- Uint<3>, Uint<4>: constructive shapes
// n := qh*d + rh built in u64 (qh, rh small symbolic), so that exact multiples, multiples +-1,
// n<d and the Knuth add-back inputs (estimate one too large) lie inside the shape.

macro_rules! div_constructive {
    ($name:ident, $L:expr, $dshape:expr, $kq:expr, $kr:expr) => {
        #[kani::proof]
        #[kani::unwind(8)]
        fn $name() {
            const L: usize = $L;
            let d: Uint<L> = $dshape;
            let dv = to_u64(&d) as u32;
            kani::assume(dv != 0);
            // quotient: $kq-bit value whose 2 low bits are free and whose higher bits are all equal
            let qraw: u16 = kani::any();
            let qhi = qraw >> 2;
            kani::assume(qhi == 0 || qhi == ((1u16 << $kq) - 1) >> 2);
            let qh: u32 = qraw as u32;
            let rsel: bool = kani::any();
            let rk: u32 = (kani::any::<u8>() as u32) & ((1u32 << $kr) - 1);
            kani::assume(rk < dv);
            // remainder next to 0 or next to d
            let rh = if rsel { dv - 1 - rk } else { rk };
            let nv64 = (qh as u64) * (dv as u64) + rh as u64;
            kani::assume(nv64 < (1u64 << (8 * L as u32)));
            let nv = nv64 as u32;
            let n: Uint<L> = from_u128(nv as u128);
            let dz = nz(d);
            let (q, r) = n.div_rem(&dz);
            assert!(to_u64(&q) as u32 == qh && to_u64(&r) as u32 == rh);
            let (qv, rv) = n.div_rem_vartime(&dz);
            assert!(to_u64(&qv) as u32 == qh && to_u64(&rv) as u32 == rh);
            kani::cover!(rh == dv - 1 && qh > 1);
            kani::cover!(rh == 0 && qh > 1);
            kani::cover!(qh == 0);
        }
    };
}

//@ name=c02_k8_uint3_constructive_d3 prop=C02,C11,C15,C20,C14 tier=quick profile=k8 funcs="Uint::div_rem,Uint::div_rem_vartime,div3by2,div2by1" bound="u8 words, Uint<3>: d=[S(2),S(2),free] (3-limb divisor, every top-limb value), n=q*d+r with q in {0..3,12..15}, r within 4 of 0 or d" free_bits=18 core=C15,C20,C14
div_constructive!(c02_k8_uint3_constructive_d3, 3, Uint::<3>::new([Limb(shaped_word(2)), Limb(shaped_word(2)), Limb(kani::any())]), 4, 2);
//@ name=c02_k8_uint3_constructive_d2 prop=C02,C11,C15 tier=quick profile=k8 funcs="Uint::div_rem,Uint::div_rem_vartime,div3by2,div2by1" bound="u8 words, Uint<3>: d=[S(2),free,0] (2-limb divisor), n=q*d+r with q in {0..3,508..511}, r within 4 of 0 or d" free_bits=18
div_constructive!(c02_k8_uint3_constructive_d2, 3, Uint::<3>::new([Limb(shaped_word(2)), Limb(kani::any()), Limb(0)]), 9, 2);
//@ name=c02_k8_uint4_constructive_d3 prop=C02,C11,C15,C20,C14 tier=quick profile=k8 funcs="Uint::div_rem,Uint::div_rem_vartime,div3by2,div2by1" bound="u8 words, Uint<4>: d=[S(1),S(1),free,0] (3-limb divisor in 4-limb width), n=q*d+r with q in {0..3,508..511}, r within 2 of 0 or d" free_bits=15 core=C20,C14
div_constructive!(c02_k8_uint4_constructive_d3, 4, Uint::<4>::new([Limb(shaped_word(1)), Limb(shaped_word(1)), Limb(kani::any()), Limb(0)]), 9, 1);
//@ name=c02_k8_uint4_constructive_d4 prop=C02,C11,C15 tier=thorough profile=k8 funcs="Uint::div_rem,Uint::div_rem_vartime,div3by2,div2by1" bound="u8 words, Uint<4>: d=[S(1),S(1),S(1),free], n=q*d+r with q in {0..3,12..15}, r within 2 of 0 or d" free_bits=17
div_constructive!(c02_k8_uint4_constructive_d4, 4, Uint::<4>::new([Limb(shaped_word(1)), Limb(shaped_word(1)), Limb(shaped_word(1)), Limb(kani::any())]), 4, 1);
