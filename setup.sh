#!/bin/sh
# Offline sanity check of the tools the checks need; builds nothing persistent
# (every check rebuilds from /repo's current working tree into a scratch dir).
set -e
cd "$(dirname "$0")"
export CARGO_NET_OFFLINE=true
cargo kani --version >/dev/null
cbmc --version >/dev/null
python3 -c "import sys; assert sys.version_info >= (3, 8)"
mkdir -p evidence logs replay
echo "setup ok"
